#!/bin/bash
# Developer aid: regression over all seeded changes: apply each patch to /repo, run the quick
# check of the property it was written against, expect exit 1 with a VIOLATION line.
# (Do not run while anything else builds from /repo; or give it a scratch clone:
#   git clone -q /repo /dev/shm/sweep-repo; REPO=/dev/shm/sweep-repo MUT_OUT=/dev/shm/sweep-out ./seeded_sweep.sh; rm -rf /dev/shm/sweep-repo)
cd /verif
for d in seeded/C*/; do
  id=$(basename $d); prop=${id%%-*}
  [ -f $d/checks ] && prop=$(cat $d/checks)       # the check that catches it when not the property's own
  res=$(./try_mut.sh /verif/$d/patch.diff $prop 2>&1 | grep -E "rc=|patch|dirty" | head -1 | cut -c1-160)
  if [ -f $d/expect ] && [ "$(cat $d/expect)" = silent ]; then
    case "$res" in *"rc=0"*) echo "SILENT-AS-EXPECTED  $id  $res" ;; *) echo "UNEXPECTED  $id  $res" ;; esac
    continue
  fi
  case "$res" in
    *"rc=1"*) echo "CAUGHT  $id  $res" ;;
    *) echo "MISSED  $id  $res" ;;
  esac
done
git -C ${REPO:-/repo} status --short | head -3
