#!/bin/bash
# Developer aid: run checks against a seeded change. Applies the diff to /repo, runs the given
# checks (quick unless TIER=thorough) with evidence/replay redirected, and ALWAYS restores /repo.
# usage: try_mut.sh <diff> <ID> [<ID>...]
# REPO=<dir> runs against another checkout of the repository (a scratch clone) instead of /repo.
DIFF=$1; shift
REPO=${REPO:-/repo}
OUT=${MUT_OUT:-/dev/shm/mut-out}; mkdir -p $OUT
[ "$REPO" != /repo ] && export VERIF_REPO=$REPO
cd $REPO && git diff --quiet || { echo "$REPO is dirty"; exit 2; }
git -C $REPO apply $DIFF 2>/dev/null || git -C $REPO apply --3way $DIFF >/dev/null 2>&1 || { echo "patch does not apply to $REPO"; git -C $REPO reset -q --hard HEAD; exit 2; }
if [ -n "$(git -C $REPO diff --name-only --diff-filter=U)" ] || grep -rlq '^<<<<<<< ' $REPO/*.go $REPO/markdown/*.go $REPO/cmd/gtree/*.go 2>/dev/null; then
  echo "patch applies only with conflicts (needs a manual rebase)"; git -C $REPO reset -q --hard HEAD; exit 2
fi
git -C $REPO reset -q
trap 'git -C $REPO reset -q --hard HEAD' EXIT
cd /verif
for id in "$@"; do
  VERIF_OUT=$OUT ./run.sh check $id --tier ${TIER:-quick} > $OUT/$id.log 2>&1; rc=$?
  echo "$id rc=$rc $(grep -c '^VIOLATION' $OUT/$id.log) VIOLATION lines; $(grep -A3 'unlisted violations by' $OUT/$id.log | sed -n 2,4p | tr -s ' ' | tr '\n' ';')"
done
