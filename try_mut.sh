#!/bin/bash
# Developer aid: run checks against a seeded change. Applies the diff to /repo, runs the given
# checks (quick unless TIER=thorough) with evidence/replay redirected, and ALWAYS restores /repo.
# usage: try_mut.sh <diff> <ID> [<ID>...]
DIFF=$1; shift
OUT=/dev/shm/mut-out; mkdir -p $OUT
cd /repo && git diff --quiet || { echo "/repo is dirty"; exit 2; }
git -C /repo apply $DIFF 2>/dev/null || git -C /repo apply --3way $DIFF >/dev/null 2>&1 || { echo "patch does not apply to /repo"; git -C /repo reset -q --hard HEAD; exit 2; }
if [ -n "$(git -C /repo diff --name-only --diff-filter=U)" ] || grep -rlq '^<<<<<<< ' /repo/*.go /repo/markdown/*.go /repo/cmd/gtree/*.go 2>/dev/null; then
  echo "patch applies only with conflicts (needs a manual rebase)"; git -C /repo reset -q --hard HEAD; exit 2
fi
git -C /repo reset -q
trap 'git -C /repo reset -q --hard HEAD' EXIT
cd /verif
for id in "$@"; do
  VERIF_OUT=$OUT ./run.sh check $id --tier ${TIER:-quick} > $OUT/$id.log 2>&1; rc=$?
  echo "$id rc=$rc $(grep -c '^VIOLATION' $OUT/$id.log) VIOLATION lines; $(grep -A3 'unlisted violations by' $OUT/$id.log | sed -n 2,4p | tr -s ' ' | tr '\n' ';')"
done
