#!/bin/bash
# Developer aid: independently confirm a sub-agent's mutation in its scratch worktree:
# compiles in all variants, passes the pinned suite, demo FAILS with it and PASSES without it.
# usage: confirm_mut.sh <worktree> <diff> <demo_test.go>
set -u
WT=$1; DIFF=$2; DEMO=$3
unset GOSUMDB GOTOOLCHAIN; export GOFLAGS=-mod=mod GOPROXY=off
cd $WT || exit 2
git checkout -q -- . ; rm -f zz_*_test.go
git apply --check $DIFF || { echo "RESULT: diff does not apply"; exit 1; }
git apply $DIFF
ok=1
go build . && go build ./cmd/gtree && go build -tags tinywasm . && go build -tags verif . || { echo "build FAILED"; ok=0; }
rm -f gtree
go test -vet=off -count=1 ./markdown/ >/tmp/cm.$$ 2>&1 && go test -vet=off -count=1 -run 'TestGenerate|TestNode|TestStack' . >>/tmp/cm.$$ 2>&1 || { echo "pinned tests FAILED"; tail -5 /tmp/cm.$$; ok=0; }
cp $DEMO zz_demo_test.go
T=$(grep -oE '^func (Test[A-Za-z0-9_]+)\(' zz_demo_test.go | sed -E 's/func (Test[A-Za-z0-9_]+)\(/\1/' | paste -sd'|')
if go test -vet=off -count=1 -run "^($T)\$" . >/tmp/cm.$$ 2>&1; then echo "demo PASSED with mutation (bad)"; ok=0; else echo "demo fails with mutation (good): $(grep -m2 -E -- '--- FAIL|panic' /tmp/cm.$$ | tr '\n' ' ')"; fi
git checkout -q -- .
if go test -vet=off -count=1 -run "^($T)\$" . >/tmp/cm.$$ 2>&1; then echo "demo passes without mutation (good)"; else echo "demo FAILS without mutation (bad)"; tail -5 /tmp/cm.$$; ok=0; fi
rm -f zz_demo_test.go /tmp/cm.$$
[ $ok = 1 ] && echo "RESULT: confirmed" || echo "RESULT: NOT confirmed"
