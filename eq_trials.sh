#!/bin/bash
# Developer aid: equivalence trials (DESIGN.md 10.8): apply each behaviour-preserving patch to a
# scratch clone and run all 17 quick checks; none may exit non-zero or print VIOLATION.
#   git clone -q /repo /dev/shm/eq-repo; ./eq_trials.sh; rm -rf /dev/shm/eq-repo
cd /verif
for f in seeded/equivalence/E*.diff; do
  REPO=/dev/shm/eq-repo MUT_OUT=/dev/shm/eq-out ./try_mut.sh /verif/$f C01 C02 C03 C04 C05 C06 C07 C08 C09 C10 C11 C12 C13 C14 C15 C16 C17 2>&1 | sed "s|^|$(basename $f) |" | cut -c1-200
done
