#!/bin/sh
# Developer aid: run every registered check of a tier sequentially and print the summary lines.
cd "$(dirname "$0")"
TIER=${1:-quick}
for id in $(jq -r '.checks[].property_id' MANIFEST.json); do
  ./run.sh check $id --tier $TIER > /tmp/runall.$$ 2>&1; rc=$?
  echo "rc=$rc $(tail -1 /tmp/runall.$$ | cut -c1-220)"
  grep -E '^(VIOLATION|KNOWN-FINDING|INCONCLUSIVE|SHARD-FAILED|ERROR)' /tmp/runall.$$ | cut -c1-160 | head -5
done
rm -f /tmp/runall.$$
