#!/bin/sh
# Entry point of every quick / thorough / replay command.
#   ./run.sh check <ID> [--tier quick|thorough]
#   ./run.sh replay <file>
#   ./run.sh baseline-off
# Builds the driver (incremental) and hands over; the driver rebuilds the workers from /repo's
# current working tree. GOSUMDB must not be "off" (it breaks the offline toolchain switch).
set -e
cd "$(dirname "$0")"
# everything (harness sources, bin/, evidence/, replay/) is relative to this directory, so that a
# snapshot of /verif (vp run) is self-contained and never writes into /verif itself
export VERIF_DIR="${VERIF_DIR:-$(pwd)}"
unset GOSUMDB GOTOOLCHAIN
export GOFLAGS=-mod=mod GOPROXY=off
if [ "$1" = "baseline-off" ]; then
  exec ./baseline_off.sh
fi
mkdir -p bin work evidence replay
( cd harness && flock ../bin/.lock go build -tags verif -o ../bin/gtverif ./cmd/gtverif ) || { echo "ERROR build driver"; exit 2; }
exec ./bin/gtverif "$@"
