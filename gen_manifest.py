#!/usr/bin/env python3
# Generates MANIFEST.json from the table below (kept in one place so that it stays valid).
import json, subprocess
HOOK_COMMITS = ["41e634a"]
CHECKS = {
 "C01": dict(level="exploration", design="DESIGN.md §4 C01",
   technique="runtime monitoring: byte-wise output monitor against an independent reference renderer over exhaustive small forests + seeded random forests",
   text="Every labeled ordered forest up to 5 (quick) / 7 (thorough) nodes over a 2-letter alphabet, in 6-30 spellings, 8 branch-string tuples (incl. empty strings, strings sharing characters, blanks only) and 3 simple code paths plus one massive call per spelling (exact block cover), shape extremes (depth 400, 300 children, 60 roots, names around 4096 bytes) and 20k/400k seeded random forests over hostile name alphabets are rendered by the real library and compared byte for byte with an independent top-down renderer. Held-on-what-was-executed, complete below the size bound.",
   note="Trusted: the reference renderer (model/model.go, ~60 lines, top-down with explicit last-child flags) and the speller. Names are valid UTF-8, one line, not blank-only."),
 "C02": dict(level="exploration", design="DESIGN.md §4 C02",
   technique="runtime monitoring: malformation injector with known class/row + completeness monitor (decoded outputs vs model) over simple, non-iterator and massive paths",
   text="Every labeled forest up to 5/6 nodes in 5 bullet-root spellings (after a heading-root spelling of the same forest) is run well-formed (accepted and complete in text, JSON, YAML, TOML, dry-run, walk; simple, non-iterator and massive; with a failing writer nil is a silent loss) and with one injected malformed line of each class M1-M6 at every line position (rejected; format errors name the row); over-long lines (64 KiB boundary) at four positions must be rejected or rendered completely; plus 5k/100k random larger documents with one injection.",
   note="Trusted: the injector's notion of 'unambiguously malformed' (DESIGN §4 C02 soundness notes); massive-mode rejections are only required to be non-nil for M3 (unit learnt from whichever block is parsed first)."),
 "C12": dict(level="exploration", design="DESIGN.md §4 C12",
   technique="runtime monitoring: crash-contained worker processes with journal-before-call, recover, goroutine deadlock monitor, hostile input generators; the massive entry points also on the Go race detector build (unsynchronised shared state crashes only now and then, the detector reports it every time)",
   text="Degenerate, blank-only, size-extreme, grammar-mutated and raw byte inputs (8.7k quick / 320k thorough) and programmatic trees with hostile names go through every entry point in simple and massive mode, the Output entry points also with writers failing from their k-th write; a panic in any goroutine (worker death attributed via the journal), a recovered panic, a deadlock, or a blank-only input giving output or an error is a violation.",
   note="Hang = all gtree goroutines blocked with unchanged ids in two observations 300 ms apart; a 120 s watchdog firing while goroutines are active is inconclusive. Termination is decided only on the executions run."),
 "C04": dict(level="exploration", design="DESIGN.md §4 C04",
   technique="runtime monitoring: round-trip monitor decoding real JSON/YAML/TOML output with the standard decoders and comparing with the model tree",
   text="Exhaustive small forests, every code point U+0000-U+02FF at three positions of a name, and 10k/200k random forests over quoting-hostile, Unicode, control, long and path-hostile alphabets are encoded by the real library (From-Markdown simple and massive, From-Root, the deprecated aliases; every case starts with failing-writer calls whose leftovers must not show) and decoded with encoding/json, yaml.v3 (values must be string scalars) and go-toml/v2; names, order and nesting must equal the merged model forest.",
   note="Names are valid UTF-8. TOML only with one root. yaml.v3's own decoder is the YAML oracle (a plain '<<' resolved as !!merge but yielding the string is accepted)."),
 "C05": dict(level="exploration", design="DESIGN.md §4 C05",
   technique="runtime monitoring: visit-sequence recorder compared with model rows and with the text output; stop-at-k counters for failing callbacks and iterator breaks",
   text="For exhaustive small forests x 5 branch tuples and random forests to 60 nodes (inputs beyond the scanner's 4096-byte buffer included), the visits of WalkFromMarkdown, WalkFromRoot, WalkIterFromRoot and the three aliases - also with meaningless stray options - are compared with the model rows (all six accessors) and with the text output's lines; a re-used tree is walked again with other branch strings and after further Adds; at every visit index k a failing callback must stop the walk after k+1 callbacks and come back unchanged, an iterator break must stop after k+1 visits.",
   note="Names are single path elements. 'No visit after leaving the iterator' is observed during the loop, after it and after a later call on the same tree."),
 "C15": dict(level="exploration", design="DESIGN.md §4 C15",
   technique="runtime monitoring: metamorphic monitor comparing every spelling's observable results with the canonical spelling's (no model)",
   text="Every labeled forest up to 5/6 nodes in 40 seeded / all 2048 spellings (units of one to three tabs or 1-8 spaces) (indent unit, bullet policy, # headings, CRLF, blank and whitespace-only lines incl. a leading one, final newline) plus random forests with bullet-like and blank-edged names: text, JSON, YAML, TOML, dry-run, walk rows, massive JSON (sorted), strict verify verdict and (for a few spellings) the mkdir snapshot must be identical to the canonical spelling's.",
   note="Heading spellings only for heading-safe root names; verify verdicts compared as nil-ness plus the set of message lines (map order is unspecified)."),
 "C06": dict(level="exploration", design="DESIGN.md §4 C06",
   technique="runtime monitoring: filesystem-snapshot conservation monitor (after - before in a fresh jail) against the model's path/kind set",
   text="Every labeled forest up to 5/6 nodes over {a.tar.gz,b} with distinct roots x 10 extension lists (inner-dot, bare, overlapping, duplicate, 11 entries, empty) x 7 target forms (empty, missing nested, pre-populated, default via chdir, explicit empty string, trailing slash, relative) x 4 routes with stray options, every subset of roots pre-existing as file or directory, over-long names at every position and a target through a regular file, plus random forests: the jail's after-before snapshot must equal the model's paths and kinds, pre-existing entries untouched, ErrExistPath leaves the filesystem unchanged, OS refusals are errors. gtree gets one shared extension slice per process (the model a pristine copy).",
   note="Runs as root on tmpfs (or /verif/work); symlinks and permission refusals are not in the workload; syscall-level fault injection for mkdir is done on the CLI in C16."),
 "C07": dict(level="exploration", design="DESIGN.md §4 C07",
   technique="runtime monitoring: jail-confinement monitor (snapshot outside the target) + accept/reject monitor for hostile names over all mkdir routes",
   text="Every forest shape up to 4/5 nodes with one hostile name at every position and random forests with several go through MkdirFromMarkdown/MkdirFromRoot and the deprecated aliases x dry-run/real x simple/massive x extension lists x 6 target forms (absolute, default via chdir, relative, not existing yet, ../target from a link-entered working directory, <link>/../target) and a target link re-pointed between two calls, with stray encode options, nil options and (From-Root) trees that were already output/walked: nothing outside the target may change whatever the outcome (the working directory is a sentinel directory inside the jail), unambiguously invalid names must be rejected, and without massive a rejected tree leaves the target untouched.",
   note="The jail nests the target five levels deep; massive calls are quiesced before the snapshot so late workers are judged on their own jail. A root named '.' is not required to be rejected."),
 "C08": dict(level="exploration", design="DESIGN.md §4 C08",
   technique="runtime monitoring: verdict/report monitor parsing Verify's error lists and comparing them with the model's missing/extra sets over materialised directory states; snapshot conservation",
   text="For every labeled forest up to 5/6 nodes every prefix-closed subset of its node paths is materialised (leaves or inner nodes as files, extra entries inside/beside/nested, states produced by real Mkdir with each extension list) and verified strict and non-strict through the four routes (stray options, explicit/default/trailing-slash target) and in massive mode: nil iff the model sees no difference, the first differing root's (massive: one differing root's) missing and extra lists exactly the model's, filesystem unchanged, Mkdir-then-strict-Verify passes.",
   note="No symlinks or unreadable directories; lists compared as sets; names contain no control characters (the report is line based)."),
 "C09": dict(level="exploration", design="DESIGN.md §4 C09",
   technique="runtime monitoring: jail-snapshot monitor under dry-run + report monitor (plain output + per-root counts cross-checked against a real Mkdir's snapshot delta) + accept/reject differential between dry run and real run",
   text="Exhaustive small forests and random forests (a third with path-hostile names) x extension lists go through Output+dry-run, MkdirFromMarkdown+dry-run, MkdirFromRoot+dry-run (also dry run then real run on the SAME tree object), Verify/Walk with a stray dry-run option, simple and massive, with nil options in the lists: the jail must be unchanged, the report must be the plain output followed per root by counts equal to what a real Mkdir created in a second jail, and dry-run must accept exactly the trees the real run accepts as far as names are concerned.",
   note="Colour disabled via fatih/color's NoColor; a real-run ErrExistPath (e.g. a root named '.') is not a name rejection; massive reports compared as exact block cover."),
 "C03": dict(level="exploration", design="DESIGN.md §4 C03",
   technique="runtime monitoring: relational monitor running each From-Root operation and its From-Markdown counterpart (and alias) on the same tree and comparing bytes, visit sequences, jail snapshots and error classes; pointer-identity monitor for Add",
   text="Every single-root labeled tree up to 5/7 nodes, built by four Add orders with repeated Adds of existing names, and 3k/200k random trees with hostile names and large fan-out: text (5 branch tuples), JSON, YAML, TOML, walk, iterator (full and left early), mkdir, verify and dry-run through the From-Root family must equal the From-Markdown family's result for a spelling of the same tree; Add of an existing name must return the very same node; nil and non-root nodes must yield ErrNilNode/ErrNotRoot through all 12 entry points with zero bytes written and an unchanged jail; each alias is called on the tree its replacement has just processed and must equal it.",
   note="Massive is compared in C10. LF/CR/empty names only on the From-Root side (compared across From-Root operations and aliases). MkdirFromRoot+dry-run is compared with Output+dry-run (the CLI route), not with MkdirFromMarkdown+dry-run (known finding KF-C09-1)."),
 "C17": dict(level="exploration", design="DESIGN.md §4 C17",
   technique="runtime monitoring: differential monitor over two builds (default tags vs -tags tinywasm) of one driver fed the same case stream",
   text="Degenerate inputs, lines around the 64 KiB scanner limit, every labeled forest up to 5/7 nodes in several spellings, every single-line malformation injection, random well-formed and mutated documents and raw bytes are sent through one process per build of the same tiny driver (default tags and -tags tinywasm); for text (default and 4 custom branch tuples), JSON and dry-run (4 extension lists) the accept/reject decision must agree and accepted outputs must be byte-identical.",
   note="The tinywasm variant is built natively (same Go sources as the web page's wasm); TinyGo/syscall-js glue is out of scope. Error texts are not compared."),
 "C14": dict(level="fault_enumeration", design="DESIGN.md §4 C14",
   technique="runtime monitoring with fault injection: fault-injecting io.Reader (sentinel after every byte offset) and io.Writer (failure / short write at every write index) wrapped around real calls; oracle on what the wrappers observed",
   text="For each document of a seeded corpus (incl. outputs beyond one and two 4096-byte buffers and single roots that large) the reader fails after every byte offset through 7 From-Markdown entry points (simple and massive) and the writer fails at every write index, persistently, as short write and transiently, for text, custom branches, JSON, YAML, TOML, dry-run and the non-iterator path, From-Markdown and From-Root, simple and massive: a reader failure must come back (errors.Is), any failed write must give a non-nil error, nil implies the writer accepted the complete output.",
   note="Faults that never took effect are counted inconclusive. Massive results compared as exact block cover. Heading-root documents are not run in massive mode (known finding of C10)."),
 "C10": dict(level="exploration", design="DESIGN.md §4 C10",
   technique="runtime monitoring under schedule perturbation: massive result compared with the simple result of the same build (exact block cover, multisets, per-root walk order, jail snapshots, error-iff) across GOMAXPROCS values, yielding/slow user I/O and seeded delays at verifPoint hooks with recorded event traces; race detector in the thorough tier",
   text="1600 (quick) / 20000 (thorough) seeded scenarios - documents with 1-40 roots (some with root blocks beyond 4096 rendered bytes) in every spelling incl. # headings and leading blank lines, a quarter malformed, one of 9 operations each - run once in simple mode and 10-20 times in massive mode (also WithMassive(nil)) under GOMAXPROCS 1/2/4/16 and five perturbation profiles, plus simple/massive pairs with a failing writer; each massive execution must be a permutation of the simple result's root blocks, the same JSON/YAML multiset, the same walk rows with per-root order, the same filesystem and verdict, fail iff simple fails, and never enter the caller's writer from two goroutines at once.",
   note="Only interleavings actually produced are judged. Error texts are not compared. Known finding KF-C10-1: a massive mkdir that fails has already created other roots."),
 "C13": dict(level="exploration", design="DESIGN.md §4 C13",
   technique="runtime monitoring: client-boundary history recorder + porcupine linearizability checker against a sequential specification (the reference model), partitioned by tree; exhaustive small sequential histories, random histories, multi-goroutine histories with hand-off on the race-detector build",
   text="Every sequential call history up to length 8 (quick) / 10 (thorough) over NewRoot/Add/operation on up to two live trees (254k / ~20M histories back to back in one process), deep chains (depth 12-70), random histories of 20-200 calls, and histories split across 2-8 goroutines with hand-off and concurrent independent From-Markdown calls (text, massive text/JSON/YAML, JSON) are recorded and checked per tree with porcupine: every operation's result (text x 3 branch tuples, walk, iterator, JSON, dry-run, mkdir delta, verify, and the failing variants: aborted walk, abandoned iterator, failing writer, pre-existing root, failing verify) must be the model's for the tree as built so far. The concurrent workload also runs under the race detector.",
   note="No two goroutines touch the same tree at the same time. Only client-visible results are judged (no internal invariant such as index uniqueness)."),
 "C11": dict(level="fault_enumeration", design="DESIGN.md §4 C11",
   technique="runtime monitoring with fault and cancellation injection: goroutine deadlock/leak monitor (quiescence on runtime.Stack states), cancellation oracle, event-triggered cancellation and seeded delays through the verifPoint hooks, Go race detector on a second build of the same workload",
   text="Massive-mode calls of every operation (incl. From-Root) with 0-30 failing blocks at each pipeline stage, failing readers/writers/callbacks, cancellation after every input offset and at every hook event, pre-cancelled and deadline contexts, bursts of plain calls and large roots with a slow writer, under seeded GOMAXPROCS and delay profiles (16k executions quick). Each call must return (deadlock monitor), leave no gtree goroutine behind (leak monitor), never call the writer concurrently, and under cancellation return nil only with complete output and otherwise the context's error; the same workload on the -race build must produce no DATA RACE report.",
   note="Bounded time = no deadlock and return before a 60 s watchdog (firing = inconclusive). Goroutines are attributed by stack frames, one call at a time. A clean race run covers only executed accesses."),
 "C16": dict(level="exploration", design="DESIGN.md §4 C16",
   technique="runtime monitoring of the real CLI process: stdout/stderr/exit-status/jail-snapshot monitor against the library's result for the corresponding options; syscall-level fault injection with strace (ENOSPC on the N-th stdout write, EACCES on the N-th mkdirat / file creation)",
   text="The binary built from /repo/cmd/gtree is run ~2800 (quick) / ~55000 (thorough) times: seeded documents through output (formats, --massive, stdin/--file), mkdir (dry-run, -e lists, --target-dir, --file, pre-existing root) and verify (--strict, --target-dir, --file, injected differences); stdout on /dev/full and closed; template|output against README and model; 15 usage-error command lines; strace-injected ENOSPC at every stdout write index and EACCES at every mkdirat / file creation. stdout must equal the library's bytes (also the partial output of a failing call), the filesystem effect the library's, exit status 0 iff the library call succeeds, failures need a diagnostic, never a crash.",
   note="web excluded; --watch has a content-judged scenario (rewrite in place, replace by rename). Closed stdout is a success state for a Go binary (runtime re-opens it on /dev/null). A strace run is a fault case iff its log contains (INJECTED)."),
}
PENDING = {}
ids = [json.loads(l)["id"] for l in open("/verif/properties.jsonl")]
checks = []
na = []
for i in ids:
    if i in CHECKS:
        c = CHECKS[i]
        checks.append({
            "property_id": i,
            "quick_cmd": f"./run.sh check {i} --tier quick",
            "thorough_cmd": f"./run.sh check {i} --tier thorough",
            "evidence_file": f"/verif/evidence/{i}.json",
            "replay_cmd_template": "./run.sh replay {path}",
            "engine": "gtverif",
            "level_claimed": {"category": c["level"], "text": c["text"], "design_ref": c["design"]},
            "level_note": c["note"],
            "technique": c["technique"],
        })
    else:
        na.append({"property_id": i, "reason": PENDING.get(i, "not claimed yet: the runtime monitor for this property is still under construction (see DESIGN.md for the planned oracle)")})
m = {
 "version": 1,
 "setup_cmd": "./setup.sh",
 "hooks": {"guard": "verif", "enable": "-tags verif (go build tag; hook = verifPoint(name) calls at pipeline hand-over points, VerifSetPointHook installs the scheduler)",
           "baseline_off_cmd": "./run.sh baseline-off", "source_commits": HOOK_COMMITS, "add_only": True},
 "engines": [{"name": "gtverif", "path": "/verif/harness", "serves_properties": [c["property_id"] for c in checks],
              "kind_free_text": "Go driver + crash-contained worker processes: reference-model monitors, fs-snapshot monitors, fault-injecting reader/writer, hook scheduler with trace recorder, goroutine/deadlock monitor, race detector, porcupine history checker, strace syscall fault injection"}],
 "checks": checks,
 "not_applicable": na,
 "notes": "All checks observe executions of the real code built from /repo's working tree with -tags verif. Known findings: /verif/known_findings.json. VERIF_SEED selects the seeded parts; enumerated parts do not depend on it.",
}
json.dump(m, open("/verif/MANIFEST.json", "w"), indent=1)
print("wrote MANIFEST.json:", len(checks), "checks,", len(na), "not claimed")
