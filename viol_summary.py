#!/usr/bin/env python3
# Developer aid: run one property's workers via the driver's replay dir and summarise replay files.
import json,sys,glob,collections
prop=sys.argv[1]
cnt=collections.Counter(); ex={}
for p in sorted(glob.glob(f'/verif/replay/{prop}-*.json')):
    m=json.load(open(p))
    k=(m['clause'],m.get('sig',''),m.get('entry',''),tuple(sorted(m.get('tags') or [])))
    cnt[k]+=1; ex.setdefault(k,(p,m))
for k,v in cnt.items():
    p,m=ex[k]
    print(v,k,p)
    d=m.get('detail') or {}
    for f in ['forest','doc','present','extras','err','want_missing','got_missing','want_extra','got_extra','diff','why']:
        if f in d: print('    ',f,'=',json.dumps(d[f],ensure_ascii=False)[:300])
