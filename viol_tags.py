#!/usr/bin/env python3
# Developer aid: run all shards of a property in-process-free mode via the worker and group violations by clause/sig/tags.
import json,sys,subprocess,collections,os,tempfile
prop=sys.argv[1]; n=int(sys.argv[2]) if len(sys.argv)>2 else 4
cnt=collections.Counter(); ex={}
tmp=tempfile.mkdtemp(dir='/dev/shm')
for sh in range(n):
    out=subprocess.run(['/verif/bin/gtworker','--prop',prop,'--journal',tmp+'/j','--tmp',tmp,'--bin','/verif/bin','--nshards','16','--shard',str(sh)],capture_output=True,text=True,cwd=tmp).stdout
    for l in out.splitlines():
        try: m=json.loads(l)
        except: continue
        if m.get('t')!='viol': continue
        cs=m['case']; k=(m['clause'],m.get('sig',''),tuple(sorted(cs.get('tags') or [])))
        cnt[k]+=1; ex.setdefault(k,m)
for k,v in sorted(cnt.items()):
    m=ex[k]; d=m.get('detail') or {}
    print(v,k)
    for f in ['why','simple_err','massive_err','doc']:
        if f in d: print('     ',f,'=',json.dumps(d[f],ensure_ascii=False)[:260])
subprocess.run(['rm','-rf',tmp])
