#!/usr/bin/env python3
# Developer aid: file a confirmed seeded change under /verif/seeded/<id>/.
# usage: keep_mut.py <prop> <A|B> "<needs>" "<check results>" [worktree]
import sys, json, os, shutil, subprocess
prop, L, needs, results = sys.argv[1:5]
wt = sys.argv[5] if len(sys.argv) > 5 else f"/tmp/wt/{prop}"
R = os.environ.get("ROUND", ""); d = f"/verif/seeded/{prop}-{R}{L}"
os.makedirs(d, exist_ok=True)
shutil.copy(f"{wt}/MUTATION/{L}.diff", f"{d}/patch.diff")
shutil.copy(f"{wt}/MUTATION/{L}_demo_test.go", f"{d}/demo_test.go")
shutil.copy(f"{wt}/MUTATION/README.md", f"{d}/AGENT_README.md")
base = subprocess.check_output(["git","-C","/repo","log","--format=%h","-1"]).decode().strip()
meta = {
 "id": f"{prop}-{R}{L}", "breaks_property": prop, "needs_to_manifest": needs,
 "origin": "fresh sub-agent given only the property text and a scratch worktree; nothing from /verif",
 "confirmed_by_me": "confirm_mut.sh in the scratch worktree: builds (default, cmd/gtree, tinywasm, verif), pinned 57-test suite passes, demo FAILS with the patch and PASSES without it",
 "applies_to_repo_commit": base,
 "ran": f"./try_mut.sh seeded/{prop}-{R}{L}/patch.diff <checks> (git -C /repo apply; ./run.sh check <ID> --tier quick with VERIF_OUT redirected; git -C /repo checkout -- .)",
 "check_results": results,
}
json.dump(meta, open(f"{d}/meta.json","w"), indent=1)
print("kept", d)
