#!/usr/bin/env python3
# Validates MANIFEST.json and evidence/*.json against the schemas (developer aid, not a check).
import json, sys, glob
import jsonschema
m = json.load(open('/verif/MANIFEST.json'))
jsonschema.validate(m, json.load(open('/root/.vp/MANIFEST.schema.json')))
es = json.load(open('/root/.vp/EVIDENCE.schema.json'))
for c in m['checks']:
    p = c['evidence_file']
    try:
        e = json.load(open(p))
        jsonschema.validate(e, es)
        assert e['level'] == c['level_claimed']['category'], 'level mismatch'
        print('ok', p, e['tier'], e['coverage']['evaluations'], e['coverage']['distinct_nontrivial'], 'viol', e.get('violations'))
    except Exception as ex:
        print('BAD', p, str(ex)[:300])
ids = [json.loads(l)['id'] for l in open('/verif/properties.jsonl')]
claimed = [c['property_id'] for c in m['checks']]
na = [x['property_id'] for x in m.get('not_applicable', [])]
for i in ids:
    if i not in claimed and i not in na: print('UNACCOUNTED', i)
print('manifest ok')
