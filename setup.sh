#!/bin/sh
# setup_cmd: build everything once, offline, from files on disk.
set -e
cd "$(dirname "$0")"
export VERIF_DIR="${VERIF_DIR:-$(pwd)}"
unset GOSUMDB GOTOOLCHAIN
export GOFLAGS=-mod=mod GOPROXY=off
mkdir -p bin work evidence replay
( cd harness && go build -tags verif -o ../bin/gtverif ./cmd/gtverif )
./bin/gtverif build
echo setup ok
