#!/bin/sh
# Runs the repository's suite with the verif guard OFF (no -tags verif), the way BASELINE.json does.
unset GOSUMDB GOTOOLCHAIN
export GOFLAGS=-mod=mod GOPROXY=off
cd /repo && go test -json -vet=off -count=1 -timeout 25m ./...
