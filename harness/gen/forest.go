package gen

import (
	"fmt"
	"strings"

	"gtverif/model"
)

// FromDepths builds a forest from a pre-order depth sequence (roots at depth 1) and names.
func FromDepths(depths []int, names []string) model.Forest {
	var f model.Forest
	var path []*model.Node // path[d-1] = last node at depth d
	for i, d := range depths {
		n := &model.Node{Name: names[i]}
		if d == 1 {
			f = append(f, n)
		} else {
			p := path[d-2]
			p.Kids = append(p.Kids, n)
		}
		path = append(path[:d-1], n)
	}
	return f
}

// Depths returns the pre-order depth sequence and names of a forest.
func Depths(f model.Forest) (depths []int, names []string) {
	var walk func(n *model.Node, d int)
	walk = func(n *model.Node, d int) {
		depths = append(depths, d)
		names = append(names, n.Name)
		for _, k := range n.Kids {
			walk(k, d+1)
		}
	}
	for _, r := range f {
		walk(r, 1)
	}
	return
}

// ForEachShape enumerates every ordered forest shape with exactly n nodes as a pre-order depth
// sequence (Catalan(n) of them). The slice is reused between calls.
func ForEachShape(n int, fn func(depths []int)) {
	d := make([]int, n)
	var rec func(i int)
	rec = func(i int) {
		if i == n {
			fn(d)
			return
		}
		max := 1
		if i > 0 {
			max = d[i-1] + 1
		}
		for v := 1; v <= max; v++ {
			d[i] = v
			rec(i + 1)
		}
	}
	if n > 0 {
		rec(0)
	}
}

// ForEachLabeled enumerates every ordered forest with 1..nMax nodes and every labeling over
// the first k letters of alphabet. idx counts cases from 0; fn receives a fresh forest.
func ForEachLabeled(nMax, k int, alphabet []string, fn func(idx int, f model.Forest)) int {
	idx := 0
	for n := 1; n <= nMax; n++ {
		ForEachShape(n, func(depths []int) {
			lab := make([]int, n)
			names := make([]string, n)
			for {
				for i := range lab {
					names[i] = alphabet[lab[i]]
				}
				fn(idx, FromDepths(depths, names))
				idx++
				// next labeling
				j := n - 1
				for j >= 0 {
					lab[j]++
					if lab[j] < k {
						break
					}
					lab[j] = 0
					j--
				}
				if j < 0 {
					break
				}
			}
		})
	}
	return idx
}

// CountLabeled is the number of cases ForEachLabeled produces.
func CountLabeled(nMax, k int) int {
	total := 0
	for n := 1; n <= nMax; n++ {
		shapes := 0
		ForEachShape(n, func([]int) { shapes++ })
		p := 1
		for i := 0; i < n; i++ {
			p *= k
		}
		total += shapes * p
	}
	return total
}

// Name classes.
const (
	ClassPlain = iota
	ClassBullet
	ClassBlankEdge
	ClassUnicode
	ClassControl
	ClassQuoting
	ClassExt
	ClassPathHostile // not a single valid path element
	ClassLong        // long names around buffer boundaries (not for filesystem workloads)
	ClassCase        // names that differ only by letter case / are equal under Unicode case folding
	NumClasses
)

var (
	plainNames   = []string{"a", "b", "c", "d", "e", "dir", "src", "x1", "node", "lib", "pkg", "cmd", "main", "t", "u", "lib64", "v1", "v10", "docs", "docs-old", "pkg-old", "main.go"} // (some are string prefixes of others)
	bulletNames  = []string{"- x", "*", "a-b", "- - a", "#h", "+", "-", "a*b", "a+b", "* y", "+ z", "--", "-a", "a -", "# h", "a#", "-\t-", "x - y * z + w"}
	blankNames   = []string{" a", "a ", "  a", "a  ", " a ", "a b", "\ta", "a\t", " \ta", "a \t", " - a", " * ", "a  b"}
	unicodeNames = []string{"日本語", "ディレクトリ", "é", "e\u0301", "שלום", "𝔘𝔫𝔦", "😀", "a\u0085b", "a\u2028b", "\ufeffa", "a\u00a0", "\u3000a", "ß", "İ", "ǆ", "a\u200bb", "\u202ea", "🧑\u200d🚀", "\u0085", "\u00a0x", "r\ufffdsum\ufffd.txt", "\ufffd"} // (the last two hold a validly encoded U+FFFD)
	controlNames = []string{"a\x00b", "\x01", "a\x07", "\x1b[31mx", "a\x7f", "\x08a", "a\x0bb", "a\x0cb", "a\rb", "\x1f", "a\x00"}
	quoteNames   = []string{"\"", "'", ":", "#", "\\", "{", "[", "null", "true", "1e3", "~", "- a", "key: v", "a: b", "\"q\"", "'s'", "a\\nb", "{a}", "[1]", "&x", "*x", "!t", "%d", "@", "`", "|", ">", "0x1f", "1", "-1", ".5", "no", "yes", "y", "N", "on", "off", "2001-01-01", "a #c", "a,b", "?", "= x", "[[t]]", "a = 1", "\"\"\"", "'''", "1_000", "inf", "nan", "<<", "=", "\\u0041"}
	extNames     = []string{"proj.tar.gz", "x.d.ts", "a.gz", "tar.gz", "b.min.css", "x.go", "Makefile", ".go", "a.go.bak", "main.go", "README.md", "go", "a.mod", "o", "x.o", "a.", ".", "..go", "Makefile.go", "lego"}
	caseNames    = []string{"readme.md", "README.MD", "Readme.md", "README.md", "makefile", "Makefile", "MAKEFILE", "k", "K", "\u212a", "s", "S", "\u017f", "σ", "ς", "Σ", "x.go", "x.GO", "X.go", "docs", "Docs", "DOCS", "a.GZ", "a.gz", "A.gz", "ǆ", "ǅ", "Ǆ", "b", "B"}
	hostileNames = []string{"..", ".", "a/b", "/abs", "../x", "a/../../x", "a/", "/", "./a", "a//b", "../../e"}
)

// NameOf draws one name of the class. Names are non-empty, contain no LF and do not end in CR;
// classes other than BlankEdge never consist of blanks only.
func NameOf(r *Rand, class int) string {
	switch class {
	case ClassBullet:
		return r.Pick(bulletNames)
	case ClassBlankEdge:
		return r.Pick(blankNames)
	case ClassUnicode:
		return r.Pick(unicodeNames)
	case ClassControl:
		return r.Pick(controlNames)
	case ClassQuoting:
		return r.Pick(quoteNames)
	case ClassExt:
		return r.Pick(extNames)
	case ClassPathHostile:
		return r.Pick(hostileNames)
	case ClassCase:
		return r.Pick(caseNames)
	case ClassLong:
		n := []int{255, 256, 300, 1023, 1024, 4095, 4096, 4097, 5000, 9000}[r.Intn(10)]
		unit := []string{"x", "ab", "日", "é-", "w "}[r.Intn(5)]
		return "L" + strings.Repeat(unit, n/len(unit)) + "E"
	}
	return r.Pick(plainNames)
}

// RandName draws from a set of classes; with some probability it composes two draws, which
// produces names the fixed lists do not contain.
func RandName(r *Rand, classes []int) string {
	c := classes[r.Intn(len(classes))]
	s := NameOf(r, c)
	if r.Chance(1, 6) {
		s += NameOf(r, classes[r.Intn(len(classes))])
	}
	if r.Chance(1, 12) {
		s = NameOf(r, ClassPlain) + s
	}
	return s
}

// SpellableName: usable as item text in a Markdown line.
func SpellableName(s string) bool {
	if s == "" || strings.ContainsAny(s, "\n") || strings.HasSuffix(s, "\r") {
		return false
	}
	return strings.TrimSpace(s) != ""
}

// HeadingSafe: usable as a "# name" heading root without the parser altering it.
func HeadingSafe(s string) bool {
	if !SpellableName(s) {
		return false
	}
	// (a name that itself begins with '#' is fine after "# ": the marker ends at the blank; the
	// speller never omits that blank for such a name)
	if strings.HasPrefix(s, " ") || strings.HasSuffix(s, " ") {
		return false
	}
	return true
}

// RandForest draws a forest with 1..maxNodes nodes, depth <= maxDepth, names from classes.
// dupBias (0..100) is the percentage chance that a node re-uses an earlier sibling's name.
func RandForest(r *Rand, maxNodes, maxDepth int, classes []int, dupBias int) model.Forest {
	n := r.Range(1, maxNodes)
	depths := make([]int, n)
	style := r.Intn(4) // 0 bushy, 1 deep, 2 flat, 3 mixed
	for i := range depths {
		if i == 0 {
			depths[i] = 1
			continue
		}
		max := depths[i-1] + 1
		if max > maxDepth {
			max = maxDepth
		}
		switch style {
		case 1:
			if r.Chance(3, 4) {
				depths[i] = max
			} else {
				depths[i] = r.Range(1, max)
			}
		case 2:
			if max > 3 {
				max = 3
			}
			depths[i] = r.Range(1, max)
		default:
			depths[i] = r.Range(1, max)
			if style == 0 && depths[i] == 1 && r.Chance(2, 3) {
				depths[i] = r.Range(1, max)
			}
		}
	}
	names := make([]string, n)
	for i := range names {
		names[i] = RandName(r, classes)
		for !SpellableName(names[i]) {
			names[i] = RandName(r, classes)
		}
	}
	f := FromDepths(depths, names)
	if dupBias > 0 {
		var dup func(kids []*model.Node)
		dup = func(kids []*model.Node) {
			for i, k := range kids {
				if i > 0 && r.Chance(dupBias, 100) {
					k.Name = kids[r.Intn(i)].Name
				}
				dup(k.Kids)
			}
		}
		for _, root := range f {
			dup(root.Kids)
		}
		if len(f) > 1 && r.Chance(dupBias, 100) {
			f[len(f)-1].Name = f[0].Name
		}
	}
	return f
}

// DistinctRoots renames roots so that they are pairwise distinct (suffixing an index).
func DistinctRoots(f model.Forest) {
	seen := map[string]bool{}
	for i, r := range f {
		for seen[r.Name] {
			r.Name = r.Name + "_" + string(rune('0'+i%10))
		}
		seen[r.Name] = true
	}
}

// WideDup: one root with w distinct children k0..k(w-1); afterwards the names at the given
// positions are written AGAIN as children of the root, each with a grandchild of its own (they
// must be merged into the first occurrence, whatever w is).
func WideDup(w int, dupAt []int) (depths []int, names []string) {
	depths, names = []int{1}, []string{"wide"}
	for i := 0; i < w; i++ {
		depths = append(depths, 2)
		names = append(names, "k"+itoa(i))
	}
	for _, p := range dupAt {
		if p < 0 || p >= w {
			continue
		}
		depths = append(depths, 2, 3)
		names = append(names, "k"+itoa(p), "under-the-repeated-k"+itoa(p))
	}
	// a GRANDCHILD and, later, a direct child of the wide node with the same name: two nodes
	depths = append(depths, 2, 3, 2, 3)
	names = append(names, "k0", "cousin", "cousin", "child-of-the-direct-cousin")
	// a name that appears for the first time AFTER all the others, and then once more
	depths = append(depths, 2, 3, 2, 3)
	names = append(names, "late-new", "first-kid-of-late-new", "late-new", "second-kid-of-late-new")
	return
}

// WideSizes are the fan-outs of the WideDup cases: around 32 / 64 / 128 / 256 and around 1024 /
// 2048 / 4096 children of one parent.
var WideSizes = []int{31, 32, 33, 34, 63, 64, 65, 66, 127, 128, 129, 255, 256, 257, 1023, 1024, 1025, 1100, 2050, 4100}

// DeepMixed: a spine of the given depth; at every level the spine node has a leaf sibling that
// comes before it on even levels and after it on odd levels, so that last / not-last ancestors
// alternate all the way down.
func DeepMixed(depth int) (depths []int, names []string) {
	var f model.Forest
	root := &model.Node{Name: "spine0"}
	f = append(f, root)
	cur := root
	for d := 1; d < depth; d++ {
		next := &model.Node{Name: "spine" + itoa(d%10)}
		leaf := &model.Node{Name: "leaf" + itoa(d%7)}
		if d%2 == 0 {
			cur.Kids = append(cur.Kids, leaf, next)
		} else {
			cur.Kids = append(cur.Kids, next, leaf)
		}
		cur = next
	}
	return Depths(f)
}

func itoa(i int) string { return fmt.Sprint(i) }

// LongDup: one root whose children have names of 63, 64, 65, 100 and 255 bytes, each written a
// second time later with a child of its own (must be merged whatever the length).
func LongDup() (depths []int, names []string) {
	depths, names = []int{1}, []string{"long-names"}
	var ls []string
	for _, n := range []int{63, 64, 65, 100, 255} {
		ls = append(ls, strings.Repeat("n", n-len(itoa(n)))+itoa(n))
	}
	for _, l := range ls {
		depths = append(depths, 2, 3)
		names = append(names, l, "first-child")
	}
	for _, l := range ls {
		depths = append(depths, 2, 3)
		names = append(names, l, "second-child")
	}
	return
}
