package gen

import (
	"fmt"
	"strings"

	"gtverif/model"
)

// Spelling is one notation of a forest as Markdown.
type Spelling struct {
	Unit      string // "\t" or 1,2,3,4,8 spaces
	Bullet    int    // 0 '-', 1 '*', 2 '+', 3 mixed per line (seeded)
	Heading   int    // 0: bullet roots; 1..3: roots written as that many '#'
	CRLF      bool
	Blanks    int  // 0 none, 1 empty lines after some lines, 2 whitespace-only lines after some lines, 3 lines of Unicode white space only
	LeadBlank bool // a blank line before the first root
	FinalNL   bool
	MixedEOL  bool // with CRLF: each line ends in LF or in CRLF, chosen per line (seeded) - a file that went through editors of both kinds
	Tight     bool // about half of the lines (seeded) are written WITHOUT the blank after the bullet / the #: "-name"
	Seed      uint64
}

// Canonical is the reference spelling.
var Canonical = Spelling{Unit: "\t", Bullet: 0, FinalNL: true}

// Units are the indentation units of the notation family.
var Units = []string{"\t", " ", "  ", "   ", "    ", "        ", "\t\t", "\t\t\t"}

var bulletChars = []string{"-", "*", "+"}

func (s Spelling) String() string {
	u := "TAB"
	if s.Unit[0] == '\t' && len(s.Unit) > 1 {
		u = fmt.Sprintf("%dTAB", len(s.Unit))
	} else if s.Unit != "\t" {
		u = fmt.Sprintf("%dsp", len(s.Unit))
	}
	b := []string{"-", "*", "+", "mixed"}[s.Bullet]
	return fmt.Sprintf("unit=%s bullet=%s heading=%d crlf=%v%s blanks=%d lead=%v finalNL=%v tight=%v", u, b, s.Heading, s.CRLF, map[bool]string{true: "(mixed with LF per line)", false: ""}[s.MixedEOL], s.Blanks, s.LeadBlank, s.FinalNL, s.Tight)
}

// AllSpellings enumerates the notation family (without leading blank line): 8 units (one to three tabs, 1-8 spaces) x 4 bullet
// policies x heading{0,1,2} x CRLF x blanks{0,1,2,3} x final newline x blank-after-bullet{always, sometimes omitted} = 2048; heading variants must
// be filtered by CanHeading per forest.
func AllSpellings(seed uint64) []Spelling {
	var out []Spelling
	for _, u := range Units {
		for b := 0; b < 4; b++ {
			for h := 0; h <= 2; h++ {
				for _, crlf := range []bool{false, true} {
					for bl := 0; bl <= 3; bl++ {
						for _, fn := range []bool{true, false} {
							for _, tight := range []bool{false, true} {
								out = append(out, Spelling{Unit: u, Bullet: b, Heading: h, CRLF: crlf, Blanks: bl, FinalNL: fn, Tight: tight, Seed: seed})
							}
						}
					}
				}
			}
		}
	}
	return out
}

// SixSpellings are the canonical quick-tier spellings.
func SixSpellings(seed uint64) []Spelling {
	return []Spelling{
		{Unit: "\t", Bullet: 0, FinalNL: true, Seed: seed},
		{Unit: "  ", Bullet: 1, FinalNL: true, Seed: seed},
		{Unit: "    ", Bullet: 3, FinalNL: true, Tight: true, Seed: seed},
		{Unit: "  ", Bullet: 0, Heading: 1, FinalNL: true, Tight: true, Seed: seed},
		{Unit: "   ", Bullet: 0, CRLF: true, MixedEOL: true, Blanks: 1, FinalNL: false, Seed: seed},
		{Unit: " ", Bullet: 2, Blanks: 2, FinalNL: true, Seed: seed},
	}
}

// RandSpelling draws one spelling.
func RandSpelling(r *Rand) Spelling {
	s := Spelling{
		Unit:    Units[r.Intn(len(Units))],
		Bullet:  r.Intn(4),
		CRLF:    r.Chance(1, 4),
		Blanks:  []int{0, 0, 1, 2, 3}[r.Intn(5)],
		FinalNL: !r.Chance(1, 4),
		Tight:   r.Chance(1, 4),
		Seed:    r.Uint64(),
	}
	if r.Chance(1, 4) {
		s.Heading = r.Range(1, 3)
	}
	if s.CRLF && r.Chance(1, 2) {
		s.MixedEOL = true
	}
	return s
}

// CanSpell: every name can be written as item text.
func CanSpell(f model.Forest) bool {
	_, names := Depths(f)
	for _, n := range names {
		if !SpellableName(n) {
			return false
		}
	}
	return true
}

// CanHeading: the roots can be written as headings.
func CanHeading(f model.Forest) bool {
	for _, r := range f {
		if !HeadingSafe(r.Name) {
			return false
		}
	}
	return true
}

// Line is one logical line of a spelled document.
type Line struct {
	Text  string // without line terminator
	Node  int    // pre-order node index, -1 for blank filler lines
	Depth int    // 1 = root
}

// SpellLines writes the forest (as given: duplicates are written as duplicates) in the spelling.
func SpellLines(f model.Forest, s Spelling) []Line {
	r := New(s.Seed, 77)
	var out []Line
	if s.LeadBlank {
		out = append(out, Line{Text: "", Node: -1})
	}
	depths, names := Depths(f)
	for i, d := range depths {
		var text string
		// the blank after the marker may be omitted ("-name", "#name") unless the text begins with a
		// blank itself (or, for headings, with another #)
		sep := " "
		if s.Tight && r.Chance(1, 2) && names[i] != "" && names[i][0] != ' ' && !(s.Heading > 0 && d == 1 && names[i][0] == '#') {
			sep = ""
		}
		if s.Heading > 0 && d == 1 {
			text = strings.Repeat("#", s.Heading) + sep + names[i]
		} else {
			ind := d - 1
			if s.Heading > 0 {
				ind = d - 2
			}
			b := s.Bullet
			if b == 3 {
				b = r.Intn(3)
			}
			text = strings.Repeat(s.Unit, ind) + bulletChars[b] + sep + names[i]
		}
		out = append(out, Line{Text: text, Node: i, Depth: d})
		if s.Blanks > 0 && r.Chance(1, 3) {
			bl := ""
			if s.Blanks == 2 {
				bl = []string{" ", "\t", "  \t ", "    "}[r.Intn(4)]
			}
			if s.Blanks == 3 {
				// white space beyond ASCII: ideographic space, no-break space, em space
				bl = []string{"\u3000", "\u00a0", " \u2003 ", "\u00a0\t", "\u3000\u3000"}[r.Intn(5)]
			}
			out = append(out, Line{Text: bl, Node: -1})
		}
	}
	return out
}

// Join assembles lines into a document.
func Join(lines []Line, crlf, finalNL bool) string {
	nl := "\n"
	if crlf {
		nl = "\r\n"
	}
	var sb strings.Builder
	for i, l := range lines {
		sb.WriteString(l.Text)
		if i < len(lines)-1 || finalNL {
			sb.WriteString(nl)
		}
	}
	return sb.String()
}

// Spell writes the forest as a Markdown document.
func Spell(f model.Forest, s Spelling) string {
	lines := SpellLines(f, s)
	if !(s.CRLF && s.MixedEOL) {
		return Join(lines, s.CRLF, s.FinalNL)
	}
	r := New(s.Seed, 78)
	var sb strings.Builder
	for i, l := range lines {
		sb.WriteString(l.Text)
		if i < len(lines)-1 || s.FinalNL {
			sb.WriteString([]string{"\n", "\r\n"}[r.Intn(2)])
		}
	}
	return sb.String()
}

// Malformation classes for C02.
const (
	M1NoBullet    = "M1.no-bullet"
	M2EmptyText   = "M2.empty-text"
	M3NotMultiple = "M3.indent-not-multiple"
	M4MixedIndent = "M4.mixed-tab-space"
	M5LevelJump   = "M5.level-jump"
	M6ItemFirst   = "M6.item-before-root"
)

// AllClasses lists them.
var AllClasses = []string{M1NoBullet, M2EmptyText, M3NotMultiple, M4MixedIndent, M5LevelJump, M6ItemFirst}

// Inject produces, from the lines of a well-formed bullet-root spelling (Heading == 0) of f,
// a document with exactly one malformed line of the class at non-blank line position pos
// (index into lines). ok is false when the class does not apply at that position. row is
// the text of the offending line.
func Inject(lines []Line, s Spelling, class string, pos int, variant int) (out []Line, row string, ok bool) {
	if pos < 0 || pos >= len(lines) || lines[pos].Node < 0 {
		return nil, "", false
	}
	l := lines[pos]
	out = append([]Line(nil), lines...)
	indent := strings.Repeat(s.Unit, l.Depth-1)
	name := strings.TrimPrefix(l.Text[len(indent)+1:], " ")
	firstIndented := -1
	for i, x := range lines {
		if x.Node >= 0 && x.Depth > 1 {
			firstIndented = i
			break
		}
	}
	switch class {
	case M1NoBullet:
		// the bullet is replaced by a letter and the text contains no bullet character at all
		clean := strings.Map(func(r rune) rune {
			if r == '-' || r == '*' || r == '+' || r == '#' {
				return 'x'
			}
			return r
		}, name)
		out[pos].Text = indent + "x " + clean
	case M2EmptyText:
		b := l.Text[len(indent) : len(indent)+1]
		switch {
		case l.Depth == 1 && variant%4 == 2:
			out[pos].Text = "#" // a heading without text
		case l.Depth == 1 && variant%4 == 3:
			out[pos].Text = "## "
		case variant%2 == 0:
			out[pos].Text = indent + b
		default:
			out[pos].Text = indent + b + " "
		}
	case M3NotMultiple:
		// only for units >= 2 spaces, only after the first indented line (which defines the unit),
		// only on indented lines
		if len(s.Unit) < 2 || l.Depth < 2 || firstIndented < 0 || pos <= firstIndented {
			return nil, "", false
		}
		if variant%2 == 0 {
			out[pos].Text = s.Unit[:1] + l.Text
		} else {
			out[pos].Text = l.Text[1:]
		}
	case M4MixedIndent:
		if l.Depth < 2 {
			return nil, "", false
		}
		rest := l.Text[len(indent):]
		if s.Unit[0] == '\t' {
			if variant%2 == 0 {
				out[pos].Text = indent + " " + rest
			} else {
				out[pos].Text = " " + indent + rest
			}
		} else {
			if variant%2 == 0 {
				out[pos].Text = indent + "\t" + rest
			} else {
				out[pos].Text = "\t" + indent + rest
			}
		}
	case M5LevelJump:
		// the line is nested >= 2 levels deeper than the item before it; requires that the unit
		// is already defined by an earlier indented line or that the line is itself a multiple
		if pos == 0 {
			return nil, "", false
		}
		prev := -1
		for i := pos - 1; i >= 0; i-- {
			if lines[i].Node >= 0 {
				prev = i
				break
			}
		}
		if prev < 0 || firstIndented < 0 || pos <= firstIndented {
			return nil, "", false
		}
		jump := 2 + variant%2
		nd := lines[prev].Depth + jump
		out[pos].Text = strings.Repeat(s.Unit, nd-1) + l.Text[len(indent):]
	case M6ItemFirst:
		// the first non-blank line becomes an indented item
		first := -1
		for i, x := range lines {
			if x.Node >= 0 {
				first = i
				break
			}
		}
		if pos != first {
			return nil, "", false
		}
		out[pos].Text = s.Unit + l.Text
	default:
		return nil, "", false
	}
	return out, out[pos].Text, true
}
