// Package gen holds the deterministic generators: PRNG, forest enumeration, name alphabets,
// Markdown spellings and malformation injection.
package gen

// Rand is a small splittable PRNG (splitmix64). Every random choice of the harness derives
// from VERIF_SEED through Key().
type Rand struct{ s uint64 }

func mix(z uint64) uint64 {
	z += 0x9e3779b97f4a7c15
	z = (z ^ (z >> 30)) * 0xbf58476d1ce4e5b9
	z = (z ^ (z >> 27)) * 0x94d049bb133111eb
	return z ^ (z >> 31)
}

// New returns a PRNG keyed by the given values.
func New(keys ...uint64) *Rand {
	s := uint64(0x1234567887654321)
	for _, k := range keys {
		s = mix(s ^ mix(k))
	}
	return &Rand{s: s}
}

// HashString is FNV-1a, used to key PRNGs and distinctness sets by strings.
func HashString(s string) uint64 {
	h := uint64(14695981039346656037)
	for i := 0; i < len(s); i++ {
		h ^= uint64(s[i])
		h *= 1099511628211
	}
	return mix(h)
}

func (r *Rand) Uint64() uint64 {
	r.s += 0x9e3779b97f4a7c15
	z := r.s
	z = (z ^ (z >> 30)) * 0xbf58476d1ce4e5b9
	z = (z ^ (z >> 27)) * 0x94d049bb133111eb
	return z ^ (z >> 31)
}

// Intn returns a value in [0,n).
func (r *Rand) Intn(n int) int {
	if n <= 1 {
		return 0
	}
	return int(r.Uint64() % uint64(n))
}

// Range returns a value in [lo,hi].
func (r *Rand) Range(lo, hi int) int { return lo + r.Intn(hi-lo+1) }

// Chance is true with probability num/den.
func (r *Rand) Chance(num, den int) bool { return r.Intn(den) < num }

// Pick picks one string.
func (r *Rand) Pick(xs []string) string { return xs[r.Intn(len(xs))] }

// Perm returns a random permutation of 0..n-1.
func (r *Rand) Perm(n int) []int {
	p := make([]int, n)
	for i := range p {
		p[i] = i
	}
	for i := n - 1; i > 0; i-- {
		j := r.Intn(i + 1)
		p[i], p[j] = p[j], p[i]
	}
	return p
}
