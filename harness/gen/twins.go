package gen

import (
	"hash/adler32"
	"hash/crc32"
	"hash/fnv"
	"sync"
)

// Hash twins: pairs of DIFFERENT names of equal length that collide under the cheap string hashes
// an implementation might use to index siblings (FNV-1 / FNV-1a 32, CRC-32, Adler-32, the
// multiplicative 31 / 33 hashes, byte sum, byte xor). Siblings are distinguished by their text,
// whatever a digest of it says. Found by a birthday search over generated names, once per process.

var (
	twinsOnce sync.Once
	twins     [][2]string
)

func twinSearch(h func(string) uint32) (string, string) {
	seen := make(map[uint32]string, 1<<18)
	const digits = "abcdefghijklmnopqrstuvwxyz0123456789"
	buf := []byte("aaaaaaaaa")
	x := uint64(88172645463325252)
	for i := 0; i < 600000; i++ {
		for k := range buf {
			x ^= x << 13
			x ^= x >> 7
			x ^= x << 17
			buf[k] = digits[x%36]
		}
		s := string(buf)
		v := h(s)
		if o, ok := seen[v]; ok && o != s {
			return o, s
		}
		seen[v] = s
	}
	return "", ""
}

// HashTwins returns the pairs.
func HashTwins() [][2]string {
	twinsOnce.Do(func() {
		hs := []func(string) uint32{
			func(s string) uint32 { h := fnv.New32a(); h.Write([]byte(s)); return h.Sum32() },
			func(s string) uint32 { h := fnv.New32(); h.Write([]byte(s)); return h.Sum32() },
			func(s string) uint32 { return crc32.ChecksumIEEE([]byte(s)) },
			func(s string) uint32 { return crc32.Checksum([]byte(s), crc32.MakeTable(crc32.Castagnoli)) },
			func(s string) uint32 { return adler32.Checksum([]byte(s)) },
			func(s string) uint32 {
				h := uint32(5381)
				for i := 0; i < len(s); i++ {
					h = h*33 + uint32(s[i])
				}
				return h
			},
			func(s string) uint32 {
				h := uint32(5381)
				for i := 0; i < len(s); i++ {
					h = h*33 ^ uint32(s[i])
				}
				return h
			},
			func(s string) uint32 {
				var h uint32
				for i := 0; i < len(s); i++ {
					h = h*31 + uint32(s[i])
				}
				return h
			},
			func(s string) uint32 { // 64-bit FNV-1a folded to 32 bits
				h := fnv.New64a()
				h.Write([]byte(s))
				v := h.Sum64()
				return uint32(v) ^ uint32(v>>32)
			},
		}
		for _, h := range hs {
			if a, b := twinSearch(h); a != "" {
				twins = append(twins, [2]string{a, b})
			}
		}
		// byte sum / xor / length-only digests, and the classic 31-hash pair
		twins = append(twins, [2]string{"ab", "ba"}, [2]string{"Aa", "BB"}, [2]string{"listen", "silent"}, [2]string{"aa", "bb"})
	})
	return twins
}

// TwinSiblings: one root whose children are the twin pairs, each child with a kid of its own;
// afterwards the FIRST of every pair is written again with another kid (to be merged into the
// first occurrence, not into its twin), and then the second.
func TwinSiblings() (depths []int, names []string) {
	depths, names = []int{1}, []string{"twins"}
	tw := HashTwins()
	for _, p := range tw {
		depths = append(depths, 2, 3, 2, 3)
		names = append(names, p[0], "kid-of-"+p[0], p[1], "kid-of-"+p[1])
	}
	for _, p := range tw {
		depths = append(depths, 2, 3, 2, 3)
		names = append(names, p[0], "second-kid-of-"+p[0], p[1], "second-kid-of-"+p[1])
	}
	return
}
