package gen

import "testing"

func TestTwins(t *testing.T) {
	tw := HashTwins()
	if len(tw) < 13 {
		t.Fatalf("only %d twin pairs: %v", len(tw), tw)
	}
	for _, p := range tw {
		if p[0] == p[1] || len(p[0]) != len(p[1]) {
			t.Fatalf("bad pair %v", p)
		}
	}
	t.Log(tw)
}
