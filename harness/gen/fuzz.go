package gen

import (
	"strings"
)

// Degenerate inputs.
var Degenerate = []string{
	"", "\n", "\n\n\n", " ", "  \n", "\t\n \n", " \r\n\r\n", "\r", "\r\n", "#", "# ", "##", "#\n#\n", "-", "- ", "*", "+", "-\n-\n",
	"- a", "- a\n", "# a", "#a", "-a", "  - a", "\t- a\n", "\n- a\n", "\n\n  \n- a\n  - b\n", "  - a\n- b\n", "- a\n\n\n", "a", "a\n", "x y z\n",
	"- a\n- a\n", "- a\n\t- b\n  - c\n", "- a\n  - b\n      - c\n  - d\n- e\n", "# a\n- b\n  - c\n# d\n- e\n", "- a\n# b\n- c\n", "# a\n# b\n# c\n",
	"\xff\xfe", "- \xff\n", "\x00", "- \x00\n", "\ufeff- a\n", "- a\r- b\r", "- a\n\x00\n- b\n", "-\t-\t-", "- - - -", "* * *\n", "+ + +\n", "---\n", "***\n",
	"- a\n - b\n  - c\n   - d\n", "- a\n    - b\n  - c\n", "- a\n  - b\n - c\n", "-  \n", "- \t\n", "#  \n", "# #\n", "####\n",
}

// MutateDoc applies 1..3 grammar-aware mutations to a valid document.
func MutateDoc(r *Rand, doc string) string {
	n := r.Range(1, 3)
	for i := 0; i < n; i++ {
		doc = mutateOnce(r, doc)
	}
	return doc
}

func mutateOnce(r *Rand, doc string) string {
	lines := strings.SplitAfter(doc, "\n")
	if len(lines) > 0 && lines[len(lines)-1] == "" {
		lines = lines[:len(lines)-1]
	}
	if len(lines) == 0 {
		return doc + Degenerate[r.Intn(len(Degenerate))]
	}
	i := r.Intn(len(lines))
	switch r.Intn(16) {
	case 0: // delete a line
		lines = append(lines[:i], lines[i+1:]...)
	case 1: // duplicate a line
		lines = append(lines[:i+1], lines[i:]...)
	case 2: // swap two lines
		j := r.Intn(len(lines))
		lines[i], lines[j] = lines[j], lines[i]
	case 3: // add indentation
		ind := []string{" ", "  ", "\t", "    ", "\t\t", "      ", " \t", "\t "}[r.Intn(8)]
		lines[i] = ind + lines[i]
	case 4: // remove indentation characters
		k := r.Range(1, 4)
		l := lines[i]
		for k > 0 && len(l) > 0 && (l[0] == ' ' || l[0] == '\t') {
			l = l[1:]
			k--
		}
		lines[i] = l
	case 5: // switch indentation character
		l := lines[i]
		t := strings.TrimLeft(l, " \t")
		ind := l[:len(l)-len(t)]
		if strings.Contains(ind, "\t") {
			ind = strings.ReplaceAll(ind, "\t", "  ")
		} else {
			ind = strings.Repeat("\t", (len(ind)+1)/2)
		}
		lines[i] = ind + t
	case 6: // strip the bullet
		l := lines[i]
		t := strings.TrimLeft(l, " \t")
		if len(t) > 0 {
			lines[i] = l[:len(l)-len(t)] + t[1:]
		}
	case 7: // insert a blank / whitespace line (possibly first)
		bl := []string{"\n", " \n", "\t\n", "\r\n", "   \n"}[r.Intn(5)]
		if r.Chance(1, 3) {
			i = 0
		}
		lines = append(lines[:i], append([]string{bl}, lines[i:]...)...)
	case 8: // prepend an indented item
		lines = append([]string{[]string{"  - z\n", "\t- z\n", " * z\n"}[r.Intn(3)]}, lines...)
	case 9: // truncate at a byte offset
		d := strings.Join(lines, "")
		return d[:r.Intn(len(d)+1)]
	case 10: // line endings
		nl := []string{"\r\n", "\r", "\n\r", "\r\r\n"}[r.Intn(4)]
		lines[i] = strings.TrimRight(lines[i], "\r\n") + nl
	case 11: // insert hostile bytes
		ins := []string{"\x00", "\xff", "\xc3", "\xef\xbb\xbf", "\xe2\x80", "#", "-", "*", "+", "\t", " "}[r.Intn(11)]
		l := lines[i]
		p := r.Intn(len(l) + 1)
		lines[i] = l[:p] + ins + l[p:]
	case 12: // turn into a heading
		lines[i] = strings.Repeat("#", r.Range(1, 3)) + " " + strings.TrimLeft(lines[i], " \t-*+")
	case 13: // remove the final newline / everything after the bullet
		l := strings.TrimRight(lines[i], "\r\n")
		if k := strings.IndexAny(l, "-*+"); k >= 0 && r.Chance(1, 2) {
			l = l[:k+1]
		}
		lines[i] = l
		if i < len(lines)-1 {
			lines[i] += "\n"
		}
	case 14: // deepen by several units
		lines[i] = strings.Repeat([]string{"  ", "\t", "    "}[r.Intn(3)], r.Range(2, 5)) + lines[i]
	case 15: // replace by a degenerate snippet
		lines[i] = Degenerate[r.Intn(len(Degenerate))]
	}
	return strings.Join(lines, "")
}

// RawBytes draws a byte string over an alphabet biased to the grammar's characters.
func RawBytes(r *Rand) string {
	n := []int{0, 1, 2, 3, 5, 8, 16, 40, 120, 400}[r.Intn(10)]
	n = r.Range(n/2, n)
	alpha := "-*+# \t\r\n\n\n  --ab\x00\xff"
	b := make([]byte, n)
	for i := range b {
		if r.Chance(1, 12) {
			b[i] = byte(r.Intn(256))
		} else {
			b[i] = alpha[r.Intn(len(alpha))]
		}
	}
	return string(b)
}

// BlankOnly tells whether the input is empty or consists only of blank characters/lines.
func BlankOnly(s string) bool {
	// (white space in the Unicode sense: a line holding only U+3000 or U+00A0 is as blank as one
	// holding a tab)
	return strings.TrimSpace(s) == ""
}
