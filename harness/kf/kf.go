// Package kf matches violations against the committed known-findings file. The file is never
// written at run time.
package kf

import (
	"encoding/json"
	"os"
	"regexp"
	"strings"
)

// Finding is one open known finding: a genuine defect of gtree recorded rather than repaired.
type Finding struct {
	ID          string   `json:"id"`
	Property    string   `json:"property"`
	Clause      string   `json:"clause"`                 // oracle clause that fails (exact)
	SigContains string   `json:"sig_contains,omitempty"` // substring of the violation signature
	EntryRegex  string   `json:"entry_regex,omitempty"`  // entry point / mode label
	RequireTags []string `json:"require_tags,omitempty"` // input-class predicates that must hold for the case
	ForbidTags  []string `json:"forbid_tags,omitempty"`
	What        string   `json:"what"`
	Where       string   `json:"where,omitempty"`
	Example     string   `json:"example,omitempty"`
}

// File is the known-findings file.
type File struct {
	Open  []Finding `json:"open"`
	Fixed []string  `json:"fixed"`
}

// Load reads the file; a missing file is an empty list.
func Load(path string) (*File, error) {
	b, err := os.ReadFile(path)
	if err != nil {
		if os.IsNotExist(err) {
			return &File{}, nil
		}
		return nil, err
	}
	var f File
	if err := json.Unmarshal(b, &f); err != nil {
		return nil, err
	}
	return &f, nil
}

// Match returns the first open finding that covers the violation, or nil.
func (f *File) Match(property, clause, sig, entry string, tags []string) *Finding {
	has := map[string]bool{}
	for _, t := range tags {
		has[t] = true
	}
next:
	for i := range f.Open {
		k := &f.Open[i]
		if k.Property != property || k.Clause != clause {
			continue
		}
		if k.SigContains != "" && !strings.Contains(sig, k.SigContains) {
			continue
		}
		if k.EntryRegex != "" {
			re, err := regexp.Compile(k.EntryRegex)
			if err != nil || !re.MatchString(entry) {
				continue
			}
		}
		for _, t := range k.RequireTags {
			if !has[t] {
				continue next
			}
		}
		for _, t := range k.ForbidTags {
			if has[t] {
				continue next
			}
		}
		return k
	}
	return nil
}
