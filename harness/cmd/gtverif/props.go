package main

func init() {
	common := []string{
		"the harness's reference model (model/) is a correct reading of the property statement",
		"go toolchain, race detector and OS behave as documented",
	}
	props["C01"] = propCfg{Level: "exploration", Assume: common,
		Rule: "cases: every labeled ordered forest up to the tier's node bound over {a,b} x spellings x 6 branch tuples x 3 code paths, plus seeded random forests over all name classes; one evaluation = one real Output call compared byte-wise with the reference renderer; distinct key = hash(forest, spelling, branch tuple, entry point); non-trivial = merged forest has >= 3 nodes and (depth >= 2 or a merged sibling)"}
}

func init() {
	common := []string{
		"the harness's reference model (model/) and malformation injector are a correct reading of the property statement",
	}
	props["C02"] = propCfg{Level: "exploration", Assume: common,
		Rule: "cases: every labeled forest up to the node bound in 5 bullet-root spellings, well-formed (must be accepted and complete in text/json/yaml/toml/dry-run/walk, simple iterator, simple non-iterator and massive) and with one injected malformed line of each class M1..M6 at every line position (must be rejected; M1/M3/M4 rejections must contain the row), plus seeded random larger documents with one injection; distinct key = hash(forest, spelling, class, position, variant, entry/mode); non-trivial = an injected document, or a well-formed forest with >= 2 nodes"}
}

func init() {
	props["C12"] = propCfg{Level: "exploration",
		Assume: []string{"a panic in any goroutine kills the worker process and is attributed to the input journalled before the call", "hang = all gtree goroutines blocked with unchanged ids in two observations >= 300 ms apart"},
		Rule: "cases: degenerate list, blank-only family, size extremes (64 KiB lines, 20k-100k roots, depth 600-2000), grammar-aware mutations of valid documents, raw biased byte strings, programmatic trees with hostile names; each through every entry point (output text/branch/json/yaml/toml/dry-run, walk, mkdir dry-run and real in a jail, verify strict/non-strict) x {simple, massive}; one evaluation = one real call watched for panic (recover + process death), deadlock (goroutine monitor) and, for blank-only input, empty output and nil; distinct key = hash(input bytes, entry point, mode); non-trivial = non-empty input"}
}
