package main

func init() {
	common := []string{
		"the harness's reference model (model/) is a correct reading of the property statement",
		"go toolchain, race detector and OS behave as documented",
	}
	props["C01"] = propCfg{Level: "exploration", Assume: common,
		Rule: "cases: every labeled ordered forest up to the tier's node bound over {a,b} x spellings x 8 branch tuples x 3 simple code paths + one massive call per spelling (exact block cover), shape extremes (depth 400, 300 children, 60 roots, names around 4096 bytes), plus seeded random forests over all name classes; one evaluation = one real Output call compared byte-wise with the reference renderer; distinct key = hash(forest, spelling, branch tuple, entry point); non-trivial = merged forest has >= 3 nodes and (depth >= 2 or a merged sibling)"}
}

func init() {
	common := []string{
		"the harness's reference model (model/) and malformation injector are a correct reading of the property statement",
	}
	props["C02"] = propCfg{Level: "exploration", Assume: common,
		Rule: "cases: every labeled forest up to the node bound in 5 bullet-root spellings, well-formed (must be accepted and complete in text/json/yaml/toml/dry-run/walk, simple iterator, simple non-iterator and massive) and with one injected malformed line of each class M1..M6 at every line position (must be rejected; M1/M3/M4 rejections must contain the row), plus seeded random larger documents with one injection; distinct key = hash(forest, spelling, class, position, variant, entry/mode); non-trivial = an injected document, or a well-formed forest with >= 2 nodes"}
}

func init() {
	props["C12"] = propCfg{Level: "exploration",
		Assume: []string{"a panic in any goroutine kills the worker process and is attributed to the input journalled before the call", "hang = all gtree goroutines blocked with unchanged ids in two observations >= 300 ms apart"},
		Rule:   "cases: degenerate list, blank-only family, size extremes (64 KiB lines, 20k-100k roots, depth 600-2000), grammar-aware mutations of valid documents, raw biased byte strings, programmatic trees with hostile names; each through every entry point (output text/branch/json/yaml/toml/dry-run, walk, mkdir dry-run and real in a jail, verify strict/non-strict) x {simple, massive}; one evaluation = one real call watched for panic (recover + process death), deadlock (goroutine monitor) and, for blank-only input, empty output and nil; distinct key = hash(input bytes, entry point, mode); non-trivial = non-empty input"}
}

func init() {
	props["C15"] = propCfg{Level: "exploration",
		Assume: []string{"the speller (gen/spelling.go) writes the same forest in every notation"},
		Rule:   "cases: every labeled forest up to the node bound x 40 seeded (quick) / all 576 (thorough) spellings of the notation family + leading-blank variants, plus seeded random forests with bullet-like and blank-edged names x 8 spellings; one evaluation = all outputs (text, JSON, YAML, TOML for one root, dry-run, walk rows, strict verify verdict against a fixed directory; mkdir snapshot for a few spellings) of one spelling compared with the canonical spelling's; distinct key = hash(forest, spelling); non-trivial = merged forest has >= 2 nodes"}
}

func init() {
	props["C04"] = propCfg{Level: "exploration",
		Assume: []string{"encoding/json, gopkg.in/yaml.v3 and go-toml/v2 decoders are the 'standard decoders'; yaml.v3 resolving a plain << as !!merge while still yielding the string is accepted"},
		Rule:   "cases: every labeled forest up to the node bound (positional child indexing), every code point U+0000-U+02FF plus selected others at the start/middle/end of a name, and seeded random forests over quoting-hostile, Unicode, control, bullet, blank-edged and path-hostile alphabets (From-Root additionally with LF/CR names) x {JSON, YAML, TOML(single root)} x {From-Markdown, From-Root}; one evaluation = one real call decoded by the standard decoder and compared with the merged model forest; distinct key = hash(forest, entry point, format); non-trivial = >= 2 nodes after merge"}
	props["C05"] = propCfg{Level: "exploration",
		Assume: []string{"names are single path elements (the statement's precondition for Path)"},
		Rule:   "cases: every labeled forest up to the node bound x 3 branch tuples, plus seeded random forests to 60 nodes, through WalkFromMarkdown, WalkFromRoot, WalkIterFromRoot and the three deprecated aliases; visit sequences compared with the model rows (Row, Branch, Name, Level, Path, HasChild) and with the text output's lines; a failing callback / break at every visit index k (exhaustive part) must stop after exactly k+1 visits and return the callback's error unchanged; distinct key = hash(forest, entry, branch tuple | stop index); non-trivial = >= 3 nodes, or any stop-at-k case"}
}

func init() {
	props["C06"] = propCfg{Level: "exploration",
		Assume: []string{"the process runs as root on a Linux filesystem; symlinks are not part of the workload", "snapshots ignore directory mtimes"},
		Rule:   "cases: every labeled forest up to the node bound over {a.tar.gz,b} with distinct roots x 10 extension lists (one shared slice per process handed to gtree, pristine copy for the model) x target forms {empty, missing nested, pre-populated, default via chdir, explicit empty string, trailing slash, relative} x stray options x {MkdirFromMarkdown, MkdirFromRoot, 2 aliases}; every non-empty subset of roots pre-existing as directory or as file; an over-long name at every node position and a target path through a regular file (OS refusals); plus seeded random forests over extension-bait/Unicode/quoting names; one evaluation = one real Mkdir judged on the jail's after-before snapshot; distinct key = hash(forest, route, ext list, target state | pre-existing mask | refusal position); non-trivial = >= 2 nodes, or any pre-existing / refusal case"}
}

func init() {
	props["C07"] = propCfg{Level: "exploration",
		Assume: []string{"an escape of more than five directory levels would leave the snapshotted jail (trees here are at most 5 levels deep)", "must-reject names: contain '/', equal '..', equal '.' below the root, or empty"},
		Rule:   "cases: every forest shape up to the node bound with one hostile name ('..', '.', 'a/b', '/abs', '../x', 'a/../../x', NUL, 256 bytes, ...) at every node position, plus seeded random forests with several hostile names (From-Root additionally empty and LF names) x {MkdirFromMarkdown, MkdirFromRoot} x {dry-run, real} x {simple, massive} x extension lists x target forms {absolute, default via chdir, relative}; one evaluation = one real call judged on the jail snapshot outside and inside the target; distinct key = hash(forest, route, mode, ext list, target form); every case is non-trivial (contains a hostile name)"}
}

func init() {
	props["C08"] = propCfg{Level: "exploration",
		Assume: []string{"no symlinks, no unreadable directories (process runs as root)", "the lists' order is unspecified: compared as sets"},
		Rule:   "cases: every labeled forest up to the node bound with distinct roots x every prefix-closed subset of its node paths as directory state (exhaustive up to 6 nodes), leaves as files or directories, 0-3 extra files/directories inside roots, next to roots and nested, states produced by a real Mkdir with each extension list; x {strict, non-strict} x {explicit, default target} x {VerifyFromMarkdown, VerifyFromRoot, aliases}; plus seeded random forests; one evaluation = one real Verify whose verdict and parsed missing/extra lists are compared with the model for the first differing root, and the jail snapshot must be unchanged; distinct key = hash(forest, state, route, strictness, target form); every case is counted non-trivial (a directory state is materialised)"}
}

func init() {
	props["C09"] = propCfg{Level: "exploration",
		Assume: []string{"colour is disabled (fatih/color NoColor=true) so reports are compared as plain text", "the real run's name-rejection is observed on an empty target (only names can reject)"},
		Rule:   "cases: every labeled forest up to the node bound over {a.tar.gz,b} x extension lists, plus seeded random forests (a third with path-hostile names) through Output+dry-run, MkdirFromMarkdown+dry-run, MkdirFromRoot+dry-run (report captured from color.Output), Verify/Walk with a stray dry-run option, x {simple, massive}; one evaluation = one real dry-run call judged on the jail snapshot (must be unchanged), on its report (plain output + per-root counts equal to the model's, which are cross-checked against a real Mkdir's snapshot delta in a second jail) and on accept/reject agreement with the real run; distinct key = hash(forest, entry, mode, ext list, root); non-trivial = >= 2 nodes after merge"}
}

func init() {
	props["C03"] = propCfg{Level: "exploration",
		Assume: []string{"relational: the From-Markdown family is the reference for the From-Root family (each is tied to the model by C01-C09)", "error messages are not compared, only nil-ness and sentinel identity"},
		Rule:   "cases: every single-root labeled tree up to the node bound (intended trees incl. repeated sibling names) built by 4 Add orders (pre-order, breadth-first, 2 seeded topological orders) with repeated Adds of existing names, plus seeded random trees with hostile names (a fifth with LF/CR/empty names, From-Root only); one evaluation = one From-Root operation (text x 3 branch tuples, JSON, YAML, TOML, walk, iterator, mkdir, verify strict/non-strict, dry-run) compared with its From-Markdown counterpart or alias, or one nil / non-root call (12 entry points) judged on sentinel error, zero bytes and unchanged jail; distinct key = hash(tree, operation, Add order | invalid kind, entry); non-trivial = >= 3 nodes, or any filesystem / invalid-root case"}
}

func init() {
	props["C17"] = propCfg{Level: "exploration", Wasm: true,
		Assume: []string{"-tags tinywasm built natively for linux/amd64 exercises the same Go code as the TinyGo/wasm artefact (compiler and syscall/js glue are out of scope)", "error texts are not compared; bytes are compared only when both builds accept"},
		Rule:   "cases: degenerate list, every labeled forest up to the node bound in 2-6 spellings, every single-line malformation injection M1-M6 on forests up to 4/5 nodes, seeded random well-formed and grammar-mutated documents, raw byte strings; each x {text default, 4 custom branch tuples incl. empty strings, JSON, dry-run with 4 extension lists}; one evaluation = the same case sent to the default-build driver and the tinywasm-build driver, outcomes compared; distinct key = hash(document bytes, mode); non-trivial = non-empty document"}
}

func init() {
	props["C14"] = propCfg{Level: "fault_enumeration",
		Assume: []string{"a failing io.Reader keeps failing; a failing io.Writer keeps failing after its first failure", "heading-root documents are not run in massive mode here (known finding of C10)"},
		Rule:   "fault enumeration: for each document of a seeded corpus (48 quick / 1600 thorough, <= ~300 bytes) the reader fails with a sentinel after EVERY byte offset 0..len (7 From-Markdown entry points x simple/massive; filesystem entry points at a quarter of the offsets) and the writer fails at EVERY write index of the fault-free run, as persistent error, as short write and as transient failure of that one write (text, custom branch, JSON, YAML, TOML, dry-run, non-iterator x From-Markdown/From-Root x simple/massive); one evaluation = one real call with one injected fault; distinct key = hash(document, entry/mode, fault kind, fault index); every case is non-trivial (a fault is injected; 'failed_writes'/'reader Failed' are measured, a fault that never took effect is inconclusive)"}
}

func init() {
	props["C10"] = propCfg{Level: "exploration", Race: true, RaceTier: "thorough",
		Assume: []string{"the simple-mode result of the same build is the reference (it is tied to the model by C01-C09)", "only the interleavings actually produced are judged; evidence counts distinct hook-event orders"},
		Rule:   "cases: seeded documents with 1-40 roots (blocks of 1-8 nodes, some equal root names) in every spelling incl. # heading roots and leading blank lines, a quarter with one injected malformed line, each with one operation (text, custom branches, JSON, YAML, dry-run, walk, mkdir, verify, strict verify); each scenario runs once in simple mode and 10 (quick) / 20 (thorough) times in massive mode under GOMAXPROCS in {1,2,4,16} x {no perturbation, yielding writer/callback, slow chunked reader, light and heavy seeded delays at the verifPoint hooks}; one evaluation = one massive execution compared with the simple result; distinct key = hash(document, operation, hook-event order of that execution), so distinct_nontrivial counts distinct (scenario, interleaving) pairs; non-trivial = >= 2 roots"}
}

func init() {
	props["C13"] = propCfg{Level: "exploration", Race: true,
		Assume: []string{"two goroutines never operate on the same tree at the same time (the statement promises independence between trees and calls, not thread-safe nodes)", "the sequential specification is the reference model of model/ (state = tree as built so far)"},
		Rule: "history checking: (a) EVERY sequential history up to length 8 (quick) / 10 (thorough) over {NewRoot (<= 2 live trees), Add(tree, parent in {root, last added}, name in {a,b}), Op(tree)} ending in an operation, with text output, and at shorter bounds with walk, iterator, JSON, custom branches, dry-run, mkdir (jail delta) and verify; (b) seeded random histories of 20-200 calls on <= 6 live trees over 9 operation kinds; (c) the same kind of histories split across 2-8 goroutines with trees handed between goroutines through a channel and independent From-Markdown calls (text, massive, JSON) running concurrently, also on the race-detector build; every call is recorded at the client boundary with logical call/return stamps, histories are partitioned by tree and each partition is checked with porcupine against the specification; distinct key = hash(history, tree); non-trivial = >= 4 calls including an operation"}
}

func init() {
	props["C11"] = propCfg{Level: "fault_enumeration", Race: true,
		Assume: []string{"one gtree call at a time per worker, so every goroutine with a gtree frame (or created by one) belongs to that call", "leak = the same set of new gtree goroutines, all in states only another goroutine can end, in two observations >= 200 ms apart after the call returned; hang = the same during the call (>= 300 ms); the 60 s watchdog firing while goroutines are active is inconclusive, never a violation", "'bounded time' is decided as deadlock-freedom plus return before the watchdog on the executions run; no latency bound is claimed", "a clean race-detector run covers only the accesses the workload executed"},
		Rule: "fault enumeration over massive-mode calls: documents with B in {0,1,2,3,5,12,30} failing blocks (first / last / seeded positions) failing in the generator stage (malformed line), the grower stage (invalid name with validation on) or the final stage (pre-existing roots for mkdir, missing roots for verify, failing callback, failing writer); reader failing after 0..100% of the input; cancellation after EVERY input offset (reader cancels the context) and at EVERY hook event of an unperturbed run (trigger on the K-th verifPoint event); context cancelled before the call; deadline contexts of 0-400 us; the four From-Root operations plain / pre-cancelled / cancelled at a hook event / failing; each under a seeded GOMAXPROCS in {1,2,4,16} and perturbation profile {none, light, heavy delays at the hooks}; one evaluation = one real call watched by the deadlock monitor, the leak monitor and (cancellation kinds) the oracle 'nil => output complete, error => errors.Is(err, ctx.Err())'; the same workload runs on the -race build and every DATA RACE report is a violation; distinct key = hash(kind, operation, fault parameters, hook-event order); non-trivial = a fault or cancellation was requested (triggers_fired / leaks / points_reached are measured)"}
}

func init() {
	props["C16"] = propCfg{Level: "exploration", CLI: true,
		Assume: []string{"the expected stdout / effect / success come from the library called with the options the flags stand for (the library is tied to the model by C01-C15)", "--watch and web are excluded (endless ticker loop; launches a browser)", "a closed stdout cannot fail in a Go program (the runtime re-opens closed standard descriptors on /dev/null), so it is a success state; /dev/full and strace-injected ENOSPC are the failing stdout states", "strace counts per thread, so a run is a fault case iff its log contains (INJECTED)"},
		Rule: "cases: 150 (quick) / 3000 (thorough) seeded documents (well-formed in random spellings, malformed by one injection, hostile names, blank) x the flag matrix {output: --format none/json/yaml/toml, --massive, stdin/--file; mkdir: +-dry-run, -e lists, +-target-dir, pre-existing root; verify: +-strict, +-target-dir, with and without an injected difference}, stdout on /dev/full and closed, the template|output sample vs README and model, 15 usage-error command lines, and strace fault injection (ENOSPC on the N-th write to stdout for every N, EACCES on the N-th mkdirat for every N, EACCES on each file creation); one evaluation = one real process run judged on exit status, stderr, stdout bytes and jail snapshot against the library's result; distinct key = hash(document, command line, fault index); non-trivial = non-empty document or a usage / fault case"}
}
