package main

func init() {
	common := []string{
		"the harness's reference model (model/) is a correct reading of the property statement",
		"go toolchain, race detector and OS behave as documented",
	}
	props["C01"] = propCfg{Level: "exploration", Assume: common,
		Rule: "cases: every labeled ordered forest up to the tier's node bound over {a,b} x spellings x 6 branch tuples x 3 code paths, plus seeded random forests over all name classes; one evaluation = one real Output call compared byte-wise with the reference renderer; distinct key = hash(forest, spelling, branch tuple, entry point); non-trivial = merged forest has >= 3 nodes and (depth >= 2 or a merged sibling)"}
}
