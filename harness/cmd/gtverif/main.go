// gtverif is the driver: it builds the workers from /repo's working tree, runs the shards of a
// property's check in crash-contained child processes, attributes worker deaths to the
// journalled case, matches violations against the known findings, writes the evidence file and
// prints the verdict lines. The driver itself never calls gtree.
package main

import (
	"bufio"
	"bytes"
	"encoding/json"
	"fmt"
	"os"
	"os/exec"
	"path/filepath"
	"regexp"
	"sort"
	"strconv"
	"strings"
	"sync"
	"syscall"
	"time"

	"gtverif/checks"
	"gtverif/kf"
)

var (
	verifDir = envOr("VERIF_DIR", "/verif")
	// outDir: where evidence/ and replay/ are written (mutation trials redirect it so that the
	// committed evidence is never overwritten by a run against a modified tree)
	outDir  = envOr("VERIF_OUT", envOr("VERIF_DIR", "/verif"))
	repoDir = envOr("VERIF_REPO", "/repo")
)

// workBase is where journals, worker output and jails live: tmpfs when available (filesystem
// workloads are ~10x faster there than on the image's ext4 with discard), else /verif/work.
func workBase() string {
	if v := os.Getenv("VERIF_WORK"); v != "" {
		return v
	}
	const shm = "/dev/shm"
	if st, err := os.Stat(shm); err == nil && st.IsDir() {
		p := filepath.Join(shm, "gtverif-work")
		if os.MkdirAll(p, 0o755) == nil {
			if f, err := os.CreateTemp(p, "probe"); err == nil {
				f.Close()
				os.Remove(f.Name())
				return p
			}
		}
	}
	return filepath.Join(verifDir, "work")
}

func envOr(k, d string) string {
	if v := os.Getenv(k); v != "" {
		return v
	}
	return d
}

func main() {
	if len(os.Args) < 2 {
		usage()
	}
	switch os.Args[1] {
	case "check":
		if len(os.Args) < 3 {
			usage()
		}
		tier := envOr("VERIF_TIER", "quick")
		for i := 3; i < len(os.Args); i++ {
			if os.Args[i] == "--tier" && i+1 < len(os.Args) {
				tier = os.Args[i+1]
			}
		}
		os.Exit(runCheck(os.Args[2], tier))
	case "replay":
		if len(os.Args) < 3 {
			usage()
		}
		os.Exit(runReplay(os.Args[2]))
	case "build":
		if err := buildAll(true, true, true); err != nil {
			fmt.Println("ERROR build:", err)
			os.Exit(2)
		}
	default:
		usage()
	}
}

func usage() {
	fmt.Fprintln(os.Stderr, "usage: gtverif check <ID> [--tier quick|thorough] | replay <file> | build")
	os.Exit(2)
}

// ---------------------------------------------------------------------------------------
// builds

func goEnv() []string {
	env := os.Environ()
	out := env[:0]
	for _, e := range env {
		if strings.HasPrefix(e, "GOFLAGS=") || strings.HasPrefix(e, "GOPROXY=") || strings.HasPrefix(e, "GOSUMDB=") || strings.HasPrefix(e, "GOTOOLCHAIN=") {
			continue
		}
		out = append(out, e)
	}
	// GOSUMDB must stay unset: "off" breaks the offline switch to the cached go1.24 toolchain
	return append(out, "GOFLAGS=-mod=mod", "GOPROXY=off")
}

func modfileArgs() ([]string, error) {
	if repoDir == "/repo" {
		return nil, nil
	}
	// mutation trials on scratch copies: generated modfile with another replace target
	src, err := os.ReadFile(filepath.Join(verifDir, "harness", "go.mod"))
	if err != nil {
		return nil, err
	}
	alt := filepath.Join(verifDir, "work", fmt.Sprintf("alt-%d.mod", os.Getpid()))
	os.MkdirAll(filepath.Dir(alt), 0o755)
	s := strings.Replace(string(src), "=> /repo", "=> "+repoDir, 1)
	if err := os.WriteFile(alt, []byte(s), 0o644); err != nil {
		return nil, err
	}
	sum, _ := os.ReadFile(filepath.Join(verifDir, "harness", "go.sum"))
	os.WriteFile(strings.TrimSuffix(alt, ".mod")+".sum", sum, 0o644)
	return []string{"-modfile=" + alt}, nil
}

func binDir() string {
	if repoDir == "/repo" {
		return filepath.Join(verifDir, "bin")
	}
	return filepath.Join(verifDir, "work", "bin-"+strconv.Itoa(os.Getpid()))
}

func goBuild(dir string, args ...string) error {
	cmd := exec.Command("go", append([]string{"build"}, args...)...)
	cmd.Dir = dir
	cmd.Env = goEnv()
	out, err := cmd.CombinedOutput()
	if err != nil {
		return fmt.Errorf("go build %v: %v\n%s", args, err, out)
	}
	return nil
}

func buildAll(race, cli, wasm bool) error {
	os.MkdirAll(binDir(), 0o755)
	// serialise builds of concurrently started checks
	lock, err := os.OpenFile(filepath.Join(verifDir, "bin", ".lock"), os.O_CREATE|os.O_RDWR, 0o644)
	if err == nil {
		syscall.Flock(int(lock.Fd()), syscall.LOCK_EX)
		defer func() { syscall.Flock(int(lock.Fd()), syscall.LOCK_UN); lock.Close() }()
	}
	mf, err := modfileArgs()
	if err != nil {
		return err
	}
	h := filepath.Join(verifDir, "harness")
	b := binDir()
	var wg sync.WaitGroup
	var mu sync.Mutex
	var firstErr error
	run := func(f func() error) {
		wg.Add(1)
		go func() {
			defer wg.Done()
			if e := f(); e != nil {
				mu.Lock()
				if firstErr == nil {
					firstErr = e
				}
				mu.Unlock()
			}
		}()
	}
	run(func() error {
		return goBuild(h, append(mf, "-tags", "verif", "-o", filepath.Join(b, "gtworker"), "./cmd/gtworker")...)
	})
	if race {
		run(func() error {
			return goBuild(h, append(mf, "-race", "-tags", "verif", "-o", filepath.Join(b, "gtworker.race"), "./cmd/gtworker")...)
		})
	}
	if cli {
		run(func() error {
			return goBuild(repoDir, "-o", filepath.Join(b, "gtree"), "./cmd/gtree")
		})
	}
	if wasm {
		run(func() error {
			return goBuild(h, append(mf, "-o", filepath.Join(b, "gtwasmdrv.default"), "./cmd/gtwasmdrv")...)
		})
		run(func() error {
			return goBuild(h, append(mf, "-tags", "tinywasm", "-o", filepath.Join(b, "gtwasmdrv.tinywasm"), "./cmd/gtwasmdrv")...)
		})
	}
	wg.Wait()
	return firstErr
}

// ---------------------------------------------------------------------------------------
// per-property configuration

type propCfg struct {
	Level     string
	Rule      string
	Race      bool   // also run shards on the -race worker
	RaceTier  string // "" = both tiers, "thorough" = only in the thorough tier
	CLI, Wasm bool
	OneCPU    bool // two of the shards are run a second time in a process pinned to ONE processor (taskset), where runtime.NumCPU() is 1
	Shards    int
	Assume    []string
}

var props = map[string]propCfg{}

func cfgOf(id string) (propCfg, bool) {
	c, ok := props[id]
	if ok && c.Shards == 0 {
		c.Shards = 16
	}
	return c, ok
}

// ---------------------------------------------------------------------------------------
// running a check

type violation struct {
	Clause string
	Sig    string
	Entry  string
	Tags   []string
	Detail map[string]any
	Case   *checks.Case
	Shard  string
}

type shardResult struct {
	stats    *checks.Stats
	samples  []map[string]any
	viols    []violation
	incon    []string
	restarts int
	failed   string // the shard could not be completed
}

func runCheck(id, tier string) int {
	cfg, ok := cfgOf(id)
	if !ok {
		fmt.Printf("ERROR unknown property %s\n", id)
		return 2
	}
	if tier != "quick" && tier != "thorough" {
		fmt.Printf("ERROR unknown tier %s\n", tier)
		return 2
	}
	seed := uint64(1)
	if s := os.Getenv("VERIF_SEED"); s != "" {
		if v, err := strconv.ParseUint(s, 10, 64); err == nil {
			seed = v
		}
	}
	startT := time.Now()
	if cfg.Race && cfg.RaceTier == "thorough" && tier != "thorough" {
		cfg.Race = false
	}
	if err := buildAll(cfg.Race, cfg.CLI, cfg.Wasm); err != nil {
		fmt.Println("ERROR build:", err)
		return 2
	}
	work := filepath.Join(workBase(), fmt.Sprintf("%s-%s-%d", id, tier, os.Getpid()))
	os.RemoveAll(work)
	os.MkdirAll(work, 0o755)
	defer os.RemoveAll(work)
	if repoDir != "/repo" {
		defer os.RemoveAll(binDir())
	}

	type job struct {
		name string
		bin  string
		race bool
		i, n int
		one  bool
	}
	var jobs []job
	for i := 0; i < cfg.Shards; i++ {
		jobs = append(jobs, job{name: fmt.Sprintf("s%02d", i), bin: "gtworker", i: i, n: cfg.Shards})
	}
	if cfg.Race {
		rn := 8
		for i := 0; i < rn; i++ {
			jobs = append(jobs, job{name: fmt.Sprintf("r%02d", i), bin: "gtworker.race", race: true, i: i, n: rn})
		}
	}
	if cfg.OneCPU {
		if _, err := exec.LookPath("taskset"); err == nil {
			for _, i := range []int{0, cfg.Shards / 2} {
				jobs = append(jobs, job{name: fmt.Sprintf("u%02d", i), bin: "gtworker", i: i, n: cfg.Shards, one: true})
			}
		}
	}
	results := make([]*shardResult, len(jobs))
	sem := make(chan struct{}, 16)
	var wg sync.WaitGroup
	for ji, j := range jobs {
		wg.Add(1)
		go func(ji int, j job) {
			defer wg.Done()
			sem <- struct{}{}
			defer func() { <-sem }()
			results[ji] = runShard(work, id, tier, seed, j.name, filepath.Join(binDir(), j.bin), j.race, j.i, j.n, j.one)
		}(ji, j)
	}
	wg.Wait()

	// aggregate
	agg := checks.Stats{Counters: map[string]int64{}}
	sets := map[string]map[string]bool{}
	distinct := map[uint64]struct{}{}
	var samples []map[string]any
	var viols []violation
	var incon []string
	exhausted := true
	restarts := 0
	var failed []string
	for ri, r := range results {
		if r == nil {
			continue
		}
		restarts += r.restarts
		if r.failed != "" {
			failed = append(failed, jobs[ri].name+": "+r.failed)
			exhausted = false
		}
		if r.stats != nil {
			agg.Evaluations += r.stats.Evaluations
			agg.Cases += r.stats.Cases
			agg.Inconclusive += r.stats.Inconclusive
			for k, v := range r.stats.Counters {
				agg.Counters[k] += v
			}
			for k, ms := range r.stats.Sets {
				if sets[k] == nil {
					sets[k] = map[string]bool{}
				}
				for _, m := range ms {
					sets[k][m] = true
				}
			}
			if !r.stats.Exhausted {
				exhausted = false
			}
			if r.stats.DistinctFile != "" {
				if b, err := os.ReadFile(r.stats.DistinctFile); err == nil {
					for i := 0; i+8 <= len(b); i += 8 {
						var k uint64
						for s := 0; s < 8; s++ {
							k |= uint64(b[i+s]) << (8 * s)
						}
						distinct[k] = struct{}{}
					}
				}
			}
		} else {
			exhausted = false
		}
		for _, s := range r.samples {
			if len(samples) < 8 {
				samples = append(samples, s)
			}
		}
		viols = append(viols, r.viols...)
		incon = append(incon, r.incon...)
	}
	// race logs
	if cfg.Race {
		rv, nraces := parseRaceLogs(work, id)
		viols = append(viols, rv...)
		agg.Counters["race_reports"] += int64(nraces)
	}

	// verdicts
	kff, err := kf.Load(filepath.Join(verifDir, "known_findings.json"))
	if err != nil {
		fmt.Println("ERROR known_findings.json:", err)
		return 2
	}
	os.MkdirAll(filepath.Join(outDir, "replay"), 0o755)
	// remove stale replay files of this property/tier
	if old, _ := filepath.Glob(filepath.Join(outDir, "replay", id+"-"+tier+"-*.json")); old != nil {
		for _, o := range old {
			os.Remove(o)
		}
	}
	kfHit := map[string]int{}
	kfWhat := map[string]string{}
	unlisted := 0
	printed := map[string]int{}
	var vioLines []string
	for _, v := range viols {
		if k := kff.Match(id, v.Clause, v.Sig, v.Entry, v.Tags); k != nil {
			kfHit[k.ID]++
			kfWhat[k.ID] = k.What
			continue
		}
		unlisted++
		key := v.Clause + "|" + v.Sig + "|" + v.Entry
		printed[key]++
		if printed[key] > 2 || len(vioLines) >= 20 {
			continue
		}
		path := filepath.Join(outDir, "replay", fmt.Sprintf("%s-%s-%03d.json", id, tier, len(vioLines)))
		rf := map[string]any{"property": id, "tier": tier, "seed": seed, "clause": v.Clause, "sig": v.Sig, "entry": v.Entry, "tags": v.Tags, "detail": v.Detail, "case": v.Case, "shard": v.Shard}
		b, _ := json.MarshalIndent(rf, "", " ")
		os.WriteFile(path, b, 0o644)
		vioLines = append(vioLines, fmt.Sprintf("VIOLATION property=%s replay=%s", id, path))
		fmt.Printf("  clause=%s sig=%q entry=%q tags=%v\n", v.Clause, v.Sig, v.Entry, v.Tags)
	}
	if unlisted > 0 {
		var keys []string
		for k := range printed {
			keys = append(keys, k)
		}
		sort.Strings(keys)
		fmt.Println("unlisted violations by clause|sig|entry:")
		for _, k := range keys {
			fmt.Printf("  %6d  %s\n", printed[k], k)
		}
	}
	var kfIDs []string
	for k := range kfHit {
		kfIDs = append(kfIDs, k)
	}
	sort.Strings(kfIDs)
	for _, k := range kfIDs {
		fmt.Printf("KNOWN-FINDING: property=%s %s: %s (%d occurrences)\n", id, k, kfWhat[k], kfHit[k])
	}
	for _, l := range vioLines {
		fmt.Println(l)
	}
	for i, s := range incon {
		if i < 5 {
			fmt.Println("INCONCLUSIVE:", s)
		}
	}
	for _, f := range failed {
		fmt.Println("SHARD-FAILED:", f)
	}

	// evidence
	setsOut := map[string][]string{}
	for k, ms := range sets {
		for m := range ms {
			setsOut[k] = append(setsOut[k], m)
		}
		sort.Strings(setsOut[k])
	}
	if len(samples) == 0 {
		samples = append(samples, map[string]any{"note": "no sample recorded"})
	}
	cov := map[string]any{
		"evaluations":         agg.Evaluations,
		"distinct_nontrivial": len(distinct),
		"rule":                cfg.Rule,
		"samples":             samples,
		"cases":               agg.Cases,
		"inconclusive":        agg.Inconclusive + int64(len(failed)),
		"known_findings_hit":  kfHit,
		"workers_restarted":   restarts,
		// the workloads mix complete enumerations below a size bound with seeded samples above it,
		// so the run as a whole never claims to have enumerated a finite space completely
		"exhaustive":            false,
		"case_list_completed":   exhausted && len(failed) == 0,
		"counters":            agg.Counters,
		"observed":            setsOut,
		"shards":              len(jobs),
	}
	ev := map[string]any{
		"property_id": id, "tier": tier, "seed": seed, "level": cfg.Level,
		"coverage": cov, "assumptions": cfg.Assume,
		"wall_s":     time.Since(startT).Seconds(),
		"violations": unlisted,
	}
	os.MkdirAll(filepath.Join(outDir, "evidence"), 0o755)
	b, _ := json.MarshalIndent(ev, "", " ")
	os.WriteFile(filepath.Join(outDir, "evidence", id+".json"), b, 0o644)

	fmt.Printf("%s %s: evaluations=%d distinct_nontrivial=%d cases=%d inconclusive=%d restarts=%d known=%d unlisted_violations=%d wall=%.1fs\n",
		id, tier, agg.Evaluations, len(distinct), agg.Cases, agg.Inconclusive, restarts, len(kfIDs), unlisted, time.Since(startT).Seconds())
	if unlisted > 0 {
		return 1
	}
	if agg.Evaluations == 0 {
		fmt.Println("ERROR: no case was evaluated")
		return 2
	}
	if len(failed) > 0 {
		return 2
	}
	return 0
}

// runShard runs one shard to completion, restarting the worker after each death.
func runShard(work, id, tier string, seed uint64, name, bin string, race bool, shard, nshards int, oneCPU bool) *shardResult {
	res := &shardResult{}
	start := 0
	journal := filepath.Join(work, name+".journal")
	tmp := filepath.Join(work, name+".tmp")
	var carry *checks.Stats // stats accumulated by dead workers
	for attempt := 0; ; attempt++ {
		os.MkdirAll(tmp, 0o755)
		os.Remove(journal)
		outPath := filepath.Join(work, fmt.Sprintf("%s.%d.out", name, attempt))
		errPath := filepath.Join(work, fmt.Sprintf("%s.%d.err", name, attempt))
		outF, _ := os.Create(outPath)
		errF, _ := os.Create(errPath)
		args := []string{"--prop", id, "--tier", tier, "--seed", strconv.FormatUint(seed, 10), "--shard", strconv.Itoa(shard), "--nshards", strconv.Itoa(nshards),
			"--start", strconv.Itoa(start), "--journal", journal, "--tmp", tmp, "--bin", binDir()}
		if race {
			args = append(args, "--race")
		}
		cmd := exec.Command(bin, args...)
		if oneCPU {
			cmd = exec.Command("taskset", append([]string{"-c", "0", bin}, args...)...)
		}
		cmd.Stdout = outF
		cmd.Stderr = errF
		cmd.Dir = tmp
		cmd.Env = append(os.Environ(), "GOTRACEBACK=all")
		if race {
			cmd.Env = append(cmd.Env, "GORACE=halt_on_error=0 exitcode=0 log_path="+filepath.Join(work, "race-"+name))
		}
		limit := 150 * time.Minute // a safety net for a stuck harness, far above any run time seen even on a loaded machine
		if tier == "quick" {
			limit = 40 * time.Minute
		}
		timedOut := false
		if err := cmd.Start(); err != nil {
			res.failed = "cannot start worker: " + err.Error()
			return res
		}
		timer := time.AfterFunc(limit, func() {
			timedOut = true
			cmd.Process.Signal(syscall.SIGQUIT)
			time.Sleep(5 * time.Second)
			cmd.Process.Kill()
		})
		werr := cmd.Wait()
		timer.Stop()
		outF.Close()
		errF.Close()

		st, samples, viols, incon, done := parseOut(outPath, name)
		res.viols = append(res.viols, viols...)
		res.incon = append(res.incon, incon...)
		if len(samples) > 0 {
			res.samples = samples
		}
		if st != nil {
			st = addStats(carry, st)
		} else {
			st = carry
		}
		res.stats = st
		if done && werr == nil {
			os.RemoveAll(tmp)
			return res
		}
		// the worker died (or exited without "done"): attribute to the journalled case
		carry = st
		if carry != nil {
			carry.Exhausted = false
		}
		stderr, _ := os.ReadFile(errPath)
		jb, jerr := os.ReadFile(journal)
		var cs checks.Case
		if jerr != nil || json.Unmarshal(jb, &cs) != nil {
			res.failed = fmt.Sprintf("worker died before journalling a case (%v): %s", werr, tailStr(string(stderr), 600))
			return res
		}
		if timedOut {
			res.incon = append(res.incon, fmt.Sprintf("%s: watchdog (%v) fired at case %d kind=%s", name, limit, cs.Idx, cs.Kind))
			res.failed = "watchdog"
			return res
		}
		if ee, ok := werr.(*exec.ExitError); ok && ee.ExitCode() == 3 {
			// the worker asked to be recycled after reporting a hang / watchdog itself
			res.restarts++
			if res.restarts > 400 {
				res.failed = "too many worker recycles"
				return res
			}
			start = cs.Idx + 1
			os.RemoveAll(tmp)
			continue
		}
		clause, sig := classifyDeath(string(stderr))
		v := violation{Clause: clause, Sig: sig, Entry: cs.Entry, Tags: cs.Tags, Case: &cs, Shard: name,
			Detail: map[string]any{"exit": fmt.Sprint(werr), "stderr_head": headStr(string(stderr), 3000)}}
		res.viols = append(res.viols, v)
		res.restarts++
		if res.restarts > 400 {
			res.failed = "too many worker deaths"
			return res
		}
		start = cs.Idx + 1
		os.RemoveAll(tmp)
	}
}

func addStats(a, b *checks.Stats) *checks.Stats {
	if a == nil {
		return b
	}
	out := *b
	out.Evaluations += a.Evaluations
	out.Cases += a.Cases
	out.Inconclusive += a.Inconclusive
	out.Counters = map[string]int64{}
	for k, v := range a.Counters {
		out.Counters[k] += v
	}
	for k, v := range b.Counters {
		out.Counters[k] += v
	}
	out.Sets = map[string][]string{}
	for k, v := range a.Sets {
		out.Sets[k] = append(out.Sets[k], v...)
	}
	for k, v := range b.Sets {
		out.Sets[k] = append(out.Sets[k], v...)
	}
	return &out
}

func parseOut(path, shard string) (st *checks.Stats, samples []map[string]any, viols []violation, incon []string, done bool) {
	f, err := os.Open(path)
	if err != nil {
		return
	}
	defer f.Close()
	sc := bufio.NewScanner(f)
	sc.Buffer(make([]byte, 1<<20), 64<<20)
	for sc.Scan() {
		var m checks.Msg
		if json.Unmarshal(sc.Bytes(), &m) != nil {
			continue
		}
		switch m.T {
		case "viol":
			v := violation{Clause: m.Clause, Sig: m.Sig, Detail: m.Detail, Case: m.Case, Shard: shard}
			if m.Case != nil {
				v.Entry = m.Case.Entry
				v.Tags = m.Case.Tags
			}
			viols = append(viols, v)
		case "inconclusive":
			idx := -1
			if m.Case != nil {
				idx = m.Case.Idx
			}
			incon = append(incon, fmt.Sprintf("%s case %d: %s", shard, idx, m.Reason))
		case "progress":
			st = m.Stats
			samples = m.Samples
		case "done":
			st = m.Stats
			samples = m.Samples
			done = true
		}
	}
	return
}

var (
	rePanic = regexp.MustCompile(`(?m)^panic: (.*)$`)
	reFatal = regexp.MustCompile(`(?m)^fatal error: (.*)$`)
)

// classifyDeath reduces a dead worker's stderr to (clause, signature).
func classifyDeath(stderr string) (string, string) {
	msg := ""
	clause := "crash"
	if m := rePanic.FindStringSubmatch(stderr); m != nil {
		msg = "panic: " + m[1]
	} else if m := reFatal.FindStringSubmatch(stderr); m != nil {
		msg = "fatal error: " + m[1]
	} else if strings.Contains(stderr, "SIGQUIT") {
		msg = "SIGQUIT"
	} else {
		msg = "exit without report: " + headStr(stderr, 120)
	}
	if len(msg) > 120 {
		msg = msg[:120]
	}
	// strip addresses
	msg = regexp.MustCompile(`0x[0-9a-f]+`).ReplaceAllString(msg, "0x?")
	frame := ""
	// first gtree frame after the panic line
	at := strings.Index(stderr, "panic:")
	if at < 0 {
		at = 0
	}
	for _, l := range strings.Split(stderr[at:], "\n") {
		if strings.HasPrefix(l, "github.com/ddddddO/gtree") {
			if i := strings.LastIndexByte(l, '('); i > 0 {
				l = l[:i]
			}
			frame = strings.TrimLeft(strings.TrimPrefix(l, "github.com/ddddddO/gtree"), "./")
			break
		}
	}
	return clause, msg + " @" + frame
}

func headStr(s string, n int) string {
	if len(s) <= n {
		return s
	}
	return s[:n]
}

func tailStr(s string, n int) string {
	if len(s) <= n {
		return s
	}
	return s[len(s)-n:]
}

// parseRaceLogs reads the race detector's log files of the race shards, de-duplicates the
// reports by the pair of innermost gtree frames (line numbers stripped) and returns one
// violation per distinct pair.
func parseRaceLogs(work, id string) ([]violation, int) {
	files, _ := filepath.Glob(filepath.Join(work, "race-*"))
	total := 0
	seen := map[string]*violation{}
	for _, f := range files {
		b, err := os.ReadFile(f)
		if err != nil {
			continue
		}
		blocks := bytes.Split(b, []byte("=================="))
		for _, blk := range blocks {
			s := string(blk)
			if !strings.Contains(s, "WARNING: DATA RACE") {
				continue
			}
			total++
			sig := raceSig(s)
			if _, ok := seen[sig]; !ok {
				seen[sig] = &violation{Clause: "race", Sig: sig, Shard: filepath.Base(f),
					Detail: map[string]any{"report": headStr(s, 6000), "rerun": "the race shard named in 'shard' of the same check, same seed"}}
			}
		}
	}
	var out []violation
	var keys []string
	for k := range seen {
		keys = append(keys, k)
	}
	sort.Strings(keys)
	for _, k := range keys {
		out = append(out, *seen[k])
	}
	return out, total
}

var reRaceFrame = regexp.MustCompile(`(?m)^\s+(github\.com/ddddddO/gtree[^\s(]*(?:\([^)]*\))?[^\s(]*)\(`)

// raceSig: for each of the two accesses ("Write at"/"Read at"/"Previous write at"...), the
// innermost gtree frame; sorted pair.
func raceSig(report string) string {
	var parts []string
	secs := regexp.MustCompile(`(?m)^(Write|Read|Previous write|Previous read|Atomic [a-z]+|Previous atomic [a-z]+) (at|of)`).FindAllStringIndex(report, -1)
	for i, loc := range secs {
		end := len(report)
		if i+1 < len(secs) {
			end = secs[i+1][0]
		}
		sec := report[loc[0]:end]
		if g := strings.Index(sec, "\nGoroutine "); g >= 0 {
			sec = sec[:g]
		}
		fr := "(no gtree frame)"
		if m := reRaceFrame.FindStringSubmatch(sec); m != nil {
			fr = strings.TrimPrefix(m[1], "github.com/ddddddO/gtree")
			fr = strings.TrimPrefix(fr, ".")
			fr = strings.TrimPrefix(fr, "/")
		} else if strings.Contains(sec, "gtverif/") {
			fr = "(harness user code called by gtree)"
		}
		parts = append(parts, fr)
		if len(parts) == 2 {
			break
		}
	}
	sort.Strings(parts)
	return strings.Join(parts, " <-> ")
}

// ---------------------------------------------------------------------------------------
// replay

func runReplay(path string) int {
	if abs, err := filepath.Abs(path); err == nil {
		path = abs
	}
	b, err := os.ReadFile(path)
	if err != nil {
		fmt.Println("ERROR", err)
		return 2
	}
	var rf struct {
		Property string       `json:"property"`
		Tier     string       `json:"tier"`
		Seed     uint64       `json:"seed"`
		Case     *checks.Case `json:"case"`
	}
	if err := json.Unmarshal(b, &rf); err != nil {
		fmt.Println("ERROR", err)
		return 2
	}
	if rf.Case == nil {
		fmt.Println("replay file has no case (race report or shard-level finding): re-run the check with the same VERIF_SEED")
		return 2
	}
	cfg, ok := cfgOf(rf.Property)
	if !ok {
		fmt.Println("ERROR unknown property", rf.Property)
		return 2
	}
	if err := buildAll(false, cfg.CLI, cfg.Wasm); err != nil {
		fmt.Println("ERROR build:", err)
		return 2
	}
	work := filepath.Join(workBase(), fmt.Sprintf("replay-%d", os.Getpid()))
	os.MkdirAll(work, 0o755)
	defer os.RemoveAll(work)
	outPath := filepath.Join(work, "out")
	outF, _ := os.Create(outPath)
	cmd := exec.Command(filepath.Join(binDir(), "gtworker"), "--prop", rf.Property, "--tier", rf.Tier, "--seed", strconv.FormatUint(rf.Seed, 10),
		"--journal", filepath.Join(work, "journal"), "--tmp", work, "--bin", binDir(), "--replay", path)
	cmd.Stdout = outF
	var stderr bytes.Buffer
	cmd.Stderr = &stderr
	cmd.Dir = work
	werr := cmd.Run()
	outF.Close()
	_, _, viols, incon, done := parseOut(outPath, "replay")
	if werr != nil || !done {
		clause, sig := classifyDeath(stderr.String())
		viols = append(viols, violation{Clause: clause, Sig: sig})
		fmt.Println(headStr(stderr.String(), 2000))
	}
	for _, v := range viols {
		d, _ := json.Marshal(v.Detail)
		fmt.Printf("reproduced: clause=%s sig=%q entry=%q\n  %s\n", v.Clause, v.Sig, v.Entry, headStr(string(d), 3000))
	}
	for _, s := range incon {
		fmt.Println("INCONCLUSIVE:", s)
	}
	if len(viols) > 0 {
		fmt.Printf("VIOLATION property=%s replay=%s\n", rf.Property, path)
		return 1
	}
	fmt.Println("replay: no violation reproduced")
	return 0
}
