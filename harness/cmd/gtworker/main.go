// gtworker is the worker child process: it enumerates/generates the cases of one shard of one
// property's check, journals each case before calling gtree, evaluates the oracle in-process
// and streams JSON lines to the driver on stdout.
package main

import (
	"encoding/json"
	"flag"
	"fmt"
	"os"

	"github.com/fatih/color"

	"gtverif/checks"
)

func main() {
	prop := flag.String("prop", "", "property id")
	tier := flag.String("tier", "quick", "quick|thorough")
	seed := flag.Uint64("seed", 1, "VERIF_SEED")
	shard := flag.Int("shard", 0, "shard index")
	nshards := flag.Int("nshards", 1, "number of shards")
	start := flag.Int("start", 0, "skip cases with index below this (resume after a crash)")
	journal := flag.String("journal", "", "journal file")
	tmp := flag.String("tmp", "", "scratch directory")
	bin := flag.String("bin", "", "directory with built binaries")
	replay := flag.String("replay", "", "replay file: re-run one journalled case")
	race := flag.Bool("race", false, "this is the race-detector build")
	flag.Parse()

	color.NoColor = true

	ch := checks.Lookup(*prop)
	if ch == nil {
		fmt.Fprintf(os.Stderr, "unknown property %q\n", *prop)
		os.Exit(2)
	}
	c := checks.NewCtx(*prop, *tier, *seed, *shard, *nshards, *start, *journal, *tmp)
	c.Race = *race
	c.BinDir = *bin
	if *replay != "" {
		b, err := os.ReadFile(*replay)
		if err != nil {
			fmt.Fprintln(os.Stderr, err)
			os.Exit(2)
		}
		var rf struct {
			Case *checks.Case `json:"case"`
		}
		if err := json.Unmarshal(b, &rf); err != nil || rf.Case == nil {
			fmt.Fprintln(os.Stderr, "bad replay file", err)
			os.Exit(2)
		}
		c.Journal(rf.Case)
		ch.Replay(c, rf.Case)
		c.Done(true)
		return
	}
	ok := ch.Run(c)
	c.Done(ok)
}
