// gtwasmdrv is compiled twice from this one source: with the default tags and with
// -tags tinywasm. It reads cases from stdin (one JSON object per line) and prints one result
// line per case: the accept/reject decision and the bytes written by gtree.Output.
package main

import (
	"bufio"
	"bytes"
	"encoding/json"
	"fmt"
	"os"

	"github.com/ddddddO/gtree"
	"github.com/fatih/color"
)

type wcase struct {
	Doc    []byte   `json:"doc"`
	Mode   string   `json:"mode"` // text | json | dry
	Branch []string `json:"branch,omitempty"`
	Ext    []string `json:"ext,omitempty"`
	HasExt bool     `json:"has_ext,omitempty"`
	// Poison > 0: before the judged call, make the same call with a writer that fails at write
	// index Poison-1 and ignore its result (state left behind by a failed call)
	Poison int `json:"poison,omitempty"`
}

type failingWriter struct{ n, failAt int }

func (w *failingWriter) Write(p []byte) (int, error) {
	i := w.n
	w.n++
	if i >= w.failAt {
		return 0, fmt.Errorf("injected write failure")
	}
	return len(p), nil
}

type wres struct {
	Err   bool   `json:"err"`
	Panic string `json:"panic,omitempty"`
	Out   []byte `json:"out"`
}

func run(c *wcase) (res wres) {
	defer func() {
		if p := recover(); p != nil {
			res.Panic = fmt.Sprint(p)
		}
	}()
	var opts []gtree.Option
	if len(c.Branch) == 4 {
		opts = append(opts, gtree.WithBranchFormatIntermedialNode(c.Branch[0], c.Branch[1]), gtree.WithBranchFormatLastNode(c.Branch[2], c.Branch[3]))
	}
	switch c.Mode {
	case "json":
		opts = append(opts, gtree.WithEncodeJSON())
	case "dry":
		opts = append(opts, gtree.WithDryRun())
	}
	if c.HasExt {
		opts = append(opts, gtree.WithFileExtensions(c.Ext))
	}
	if c.Poison > 0 {
		func() {
			defer func() { recover() }()
			_ = gtree.Output(&failingWriter{failAt: c.Poison - 1}, bytes.NewReader(c.Doc), opts...)
		}()
	}
	var buf bytes.Buffer
	err := gtree.Output(&buf, bytes.NewReader(c.Doc), opts...)
	res.Err = err != nil
	res.Out = buf.Bytes()
	return
}

func main() {
	color.NoColor = true
	in := bufio.NewScanner(os.Stdin)
	in.Buffer(make([]byte, 1<<20), 64<<20)
	out := bufio.NewWriter(os.Stdout)
	defer out.Flush()
	for in.Scan() {
		var c wcase
		if err := json.Unmarshal(in.Bytes(), &c); err != nil {
			fmt.Fprintln(out, `{"panic":"bad case"}`)
			continue
		}
		r := run(&c)
		b, _ := json.Marshal(r)
		out.Write(b)
		out.WriteByte('\n')
		out.Flush()
	}
}
