// gtwasmdrv is compiled twice from this one source: with the default tags and with
// -tags tinywasm. It reads cases from stdin (one JSON object per line) and prints one result
// line per case: the accept/reject decision and the bytes written by gtree.Output.
package main

import (
	"bufio"
	"bytes"
	"encoding/json"
	"fmt"
	"os"
	"sync"

	"github.com/ddddddO/gtree"
	"github.com/fatih/color"
)

type wcase struct {
	Doc    []byte   `json:"doc"`
	Mode   string   `json:"mode"` // text | json | dry
	Branch []string `json:"branch,omitempty"`
	Ext    []string `json:"ext,omitempty"`
	HasExt bool     `json:"has_ext,omitempty"`
	// Poison > 0: before the judged call, make the same call with a writer that fails at write
	// index Poison-1 and ignore its result (state left behind by a failed call)
	Poison int `json:"poison,omitempty"`
	// Par > 1: the judged call is made Par times at the same moment from Par goroutines; all of
	// them must give the same bytes (independent calls do not disturb each other)
	Par int `json:"par,omitempty"`
}

type failingWriter struct{ n, failAt int }

func (w *failingWriter) Write(p []byte) (int, error) {
	i := w.n
	w.n++
	if i >= w.failAt {
		return 0, fmt.Errorf("injected write failure")
	}
	return len(p), nil
}

type wres struct {
	Err   bool   `json:"err"`
	Panic string `json:"panic,omitempty"`
	Out   []byte `json:"out"`
}

func run(c *wcase) (res wres) {
	defer func() {
		if p := recover(); p != nil {
			res.Panic = fmt.Sprint(p)
		}
	}()
	var opts []gtree.Option
	if len(c.Branch) == 4 {
		opts = append(opts, gtree.WithBranchFormatIntermedialNode(c.Branch[0], c.Branch[1]), gtree.WithBranchFormatLastNode(c.Branch[2], c.Branch[3]))
	}
	switch c.Mode {
	case "json":
		opts = append(opts, gtree.WithEncodeJSON())
	case "dry":
		opts = append(opts, gtree.WithDryRun())
	}
	if c.HasExt {
		opts = append(opts, gtree.WithFileExtensions(c.Ext))
	}
	if c.Poison > 0 {
		func() {
			defer func() { recover() }()
			_ = gtree.Output(&failingWriter{failAt: c.Poison - 1}, bytes.NewReader(c.Doc), opts...)
		}()
	}
	var buf bytes.Buffer
	err := gtree.Output(&buf, bytes.NewReader(c.Doc), opts...)
	res.Err = err != nil
	res.Out = buf.Bytes()
	return
}

func main() {
	color.NoColor = true
	in := bufio.NewScanner(os.Stdin)
	in.Buffer(make([]byte, 1<<20), 64<<20)
	out := bufio.NewWriter(os.Stdout)
	defer out.Flush()
	for in.Scan() {
		var c wcase
		if err := json.Unmarshal(in.Bytes(), &c); err != nil {
			fmt.Fprintln(out, `{"panic":"bad case"}`)
			continue
		}
		r := run(&c)
		if c.Par > 1 {
			c.Poison = 0
			// every goroutine renders ITS OWN document (the judged one plus one extra root), first
			// alone, then 25 times while the others do the same
			bad := make([]int, c.Par)
			docs := make([]wcase, c.Par)
			alone := make([]wres, c.Par)
			for i := range docs {
				docs[i] = c
				docs[i].Doc = append(append([]byte(nil), c.Doc...), []byte(fmt.Sprintf("\n- zz-concurrent-%d\n  - kid\n", i))...)
				alone[i] = run(&docs[i])
			}
			var wg sync.WaitGroup
			start := make(chan struct{})
			for i := range bad {
				wg.Add(1)
				go func(i int) {
					defer wg.Done()
					<-start
					for k := 0; k < 25; k++ {
						cc := docs[i]
						x := run(&cc)
						if x.Err != alone[i].Err || x.Panic != alone[i].Panic || !bytes.Equal(x.Out, alone[i].Out) {
							bad[i]++
						}
					}
				}(i)
			}
			close(start)
			wg.Wait()
			for i := range bad {
				if bad[i] > 0 {
					r.Panic = fmt.Sprintf("%d of 25 calls made concurrently (goroutine %d of %d) differ from the same call made alone", bad[i], i+1, c.Par)
					break
				}
			}
		}
		b, _ := json.Marshal(r)
		out.Write(b)
		out.WriteByte('\n')
		out.Flush()
	}
}
