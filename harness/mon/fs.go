// Package mon holds the monitors: filesystem jail/snapshot, fault-injecting reader/writer,
// hook scheduler + trace recorder, goroutine/deadlock monitor.
package mon

import (
	"crypto/sha256"
	"fmt"
	"io/fs"
	"os"
	"path/filepath"
	"sort"
	"strings"
	"sync/atomic"
)

// SnapEntry is one filesystem entry of a snapshot.
type SnapEntry struct {
	Path string // relative to the jail, '/'-separated
	Kind string // "d", "f", "l", "?"
	Size int64
	Mode uint32
	Sum  string // sha256 of content (files), link target (symlinks)
}

// Snapshot is the sorted list of entries below a directory. Directory mtimes are deliberately
// not part of it.
type Snapshot []SnapEntry

// Snap takes a snapshot of dir.
func Snap(dir string) (Snapshot, error) {
	var out Snapshot
	err := filepath.WalkDir(dir, func(p string, d fs.DirEntry, err error) error {
		if err != nil {
			return err
		}
		rel, _ := filepath.Rel(dir, p)
		if rel == "." {
			return nil
		}
		info, err := d.Info()
		if err != nil {
			return err
		}
		e := SnapEntry{Path: filepath.ToSlash(rel), Mode: uint32(info.Mode() & (os.ModePerm | os.ModeSticky | os.ModeSetgid | os.ModeSetuid))}
		switch {
		case info.Mode().IsDir():
			e.Kind = "d"
		case info.Mode().IsRegular():
			e.Kind = "f"
			e.Size = info.Size()
			b, err := os.ReadFile(p)
			if err != nil {
				return err
			}
			e.Sum = fmt.Sprintf("%x", sha256.Sum256(b))[:16]
		case info.Mode()&os.ModeSymlink != 0:
			e.Kind = "l"
			e.Sum, _ = os.Readlink(p)
		default:
			e.Kind = "?"
		}
		out = append(out, e)
		return nil
	})
	sort.Slice(out, func(i, j int) bool { return out[i].Path < out[j].Path })
	return out, err
}

// Diff returns human-readable differences between two snapshots (empty if equal).
func Diff(before, after Snapshot) []string {
	var out []string
	bi := map[string]SnapEntry{}
	for _, e := range before {
		bi[e.Path] = e
	}
	ai := map[string]SnapEntry{}
	for _, e := range after {
		ai[e.Path] = e
		if b, ok := bi[e.Path]; !ok {
			out = append(out, "+"+e.Kind+" "+e.Path)
		} else if b != e {
			out = append(out, fmt.Sprintf("~ %s (%s,%d,%o,%s -> %s,%d,%o,%s)", e.Path, b.Kind, b.Size, b.Mode, b.Sum, e.Kind, e.Size, e.Mode, e.Sum))
		}
	}
	for _, e := range before {
		if _, ok := ai[e.Path]; !ok {
			out = append(out, "-"+e.Kind+" "+e.Path)
		}
	}
	sort.Strings(out)
	return out
}

// Under splits a diff into entries below prefix (relative, '/'-terminated implied) and others.
func Under(diff []string, prefix string) (in, outside []string) {
	for _, d := range diff {
		// format: "<op><kind> <path>" or "~ <path> (...)"
		sp := strings.IndexByte(d, ' ')
		p := d[sp+1:]
		if d[0] == '~' {
			if i := strings.Index(p, " ("); i >= 0 {
				p = p[:i]
			}
		}
		if p == prefix || strings.HasPrefix(p, prefix+"/") {
			in = append(in, d)
		} else {
			outside = append(outside, d)
		}
	}
	return
}

// Jail is a fresh directory with a target and sentinels around it.
type Jail struct {
	Root   string // the jail directory
	Target string // the target directory inside it
	Rel    string // Target relative to Root ('/'-separated)
}

// NewJail creates jailXXXX/l1/l2/l3/l4/{target/,sentinel-a/keep,sentinel-file,target-sibling/x,targetX/}
// plus a marker file on every level, so that an escape of up to five levels stays inside the
// snapshotted jail. If makeTarget is false the target directory is not created.
func NewJail(base string, makeTarget bool) (*Jail, error) {
	root, err := os.MkdirTemp(base, "jail")
	if err != nil {
		return nil, err
	}
	deep := root
	for _, l := range []string{"l1", "l2", "l3", "l4"} {
		os.WriteFile(filepath.Join(deep, "marker"), []byte("m"), 0o644)
		deep = filepath.Join(deep, l)
		if err := os.Mkdir(deep, 0o755); err != nil {
			return nil, err
		}
	}
	j := &Jail{Root: root, Target: filepath.Join(deep, "target"), Rel: "l1/l2/l3/l4/target"}
	if makeTarget {
		if err := os.Mkdir(j.Target, 0o755); err != nil {
			return nil, err
		}
		// the target's own mode rotates (a private, a group-writable, a sticky directory ...): a
		// callee that "normalises" the mode of a directory it did not create is then visible
		m := jailModes[jailSeq.Add(1)%uint64(len(jailModes))]
		if m != 0o755 {
			os.Chmod(j.Target, m)
		}
	}
	os.MkdirAll(filepath.Join(deep, "sentinel-a"), 0o755)
	os.WriteFile(filepath.Join(deep, "sentinel-a", "keep"), []byte("keep"), 0o644)
	os.WriteFile(filepath.Join(deep, "sentinel-file"), []byte("s"), 0o644)
	os.MkdirAll(filepath.Join(deep, "target-sibling"), 0o755)
	os.WriteFile(filepath.Join(deep, "target-sibling", "x"), []byte("x"), 0o600)
	os.MkdirAll(filepath.Join(deep, "targetX"), 0o755)
	return j, nil
}

var jailSeq atomic.Uint64
var jailModes = []os.FileMode{0o755, 0o700, 0o775, 0o755 | os.ModeSticky | 0o022, 0o750}

// Remove deletes the jail.
func (j *Jail) Remove() { os.RemoveAll(j.Root) }

// Snap snapshots the whole jail.
func (j *Jail) Snap() Snapshot {
	s, _ := Snap(j.Root)
	return s
}

// OpenUnder lists the process's open descriptors whose target lies under dir (read from
// /proc/self/fd). After a call has returned, nothing it created or examined may still be open:
// a descriptor per created file is a leak that only shows once the process runs out of them.
func OpenUnder(dir string) []string {
	ents, err := os.ReadDir("/proc/self/fd")
	if err != nil {
		return nil
	}
	var out []string
	for _, e := range ents {
		t, err := os.Readlink("/proc/self/fd/" + e.Name())
		if err != nil {
			continue
		}
		if t == dir || strings.HasPrefix(t, dir+"/") {
			out = append(out, t)
		}
	}
	return out
}
