package mon

import (
	"runtime"
	"sync"
	"time"
)

// Profile is a perturbation profile for the hook scheduler.
type Profile struct {
	Name string
	// per-event probabilities in per-mille
	Gosched, SleepShort, SleepLong int
}

// Profiles used by the schedule-sensitive checks.
var (
	ProfNone  = Profile{Name: "none"}
	ProfLight = Profile{Name: "light", Gosched: 250, SleepShort: 60, SleepLong: 0}
	ProfHeavy = Profile{Name: "heavy", Gosched: 300, SleepShort: 200, SleepLong: 20}
)

// Sched is the hook installed at gtree's verifPoint sites: it perturbs the schedule with
// seeded yields/sleeps, fires triggers on event counts and records the trace.
type Sched struct {
	mu       sync.Mutex
	prof     Profile
	rnd      uint64
	trace    []string
	counts   map[string]int
	total    int
	maxTrace int
	// trigger: when the n-th event overall (TrigAt >= 0) or the n-th event at TrigPoint occurs, call Fire once
	TrigAt    int
	TrigPoint string
	TrigN     int
	Fire      func()
	fired     bool
	// SlowPoints: extra sleep at specific points (used to widen specific windows)
	SlowPoints map[string]time.Duration
}

// NewSched creates a scheduler hook with the given profile and seed.
func NewSched(p Profile, seed uint64) *Sched {
	return &Sched{prof: p, rnd: seed | 1, counts: map[string]int{}, maxTrace: 4096, TrigAt: -1}
}

func (s *Sched) next() uint64 {
	s.rnd ^= s.rnd << 13
	s.rnd ^= s.rnd >> 7
	s.rnd ^= s.rnd << 17
	return s.rnd
}

// Hook is the function to install with gtree.VerifSetPointHook.
func (s *Sched) Hook(point string) {
	s.mu.Lock()
	idx := s.total
	s.total++
	s.counts[point]++
	cnt := s.counts[point]
	if len(s.trace) < s.maxTrace {
		s.trace = append(s.trace, point)
	}
	var fire func()
	if !s.fired && s.Fire != nil {
		if (s.TrigAt >= 0 && idx == s.TrigAt) || (s.TrigPoint != "" && s.TrigPoint == point && cnt == s.TrigN) {
			s.fired = true
			fire = s.Fire
		}
	}
	roll := int(s.next() % 1000)
	dur := time.Duration(0)
	yield := false
	switch {
	case roll < s.prof.SleepLong:
		dur = time.Duration(2000+s.next()%3000) * time.Microsecond
	case roll < s.prof.SleepLong+s.prof.SleepShort:
		dur = time.Duration(50+s.next()%450) * time.Microsecond
	case roll < s.prof.SleepLong+s.prof.SleepShort+s.prof.Gosched:
		yield = true
	}
	if d, ok := s.SlowPoints[point]; ok {
		dur += d
	}
	s.mu.Unlock()
	if fire != nil {
		fire()
	}
	if yield {
		runtime.Gosched()
	}
	if dur > 0 {
		time.Sleep(dur)
	}
}

// Trace returns the recorded event sequence, the per-point counts and whether the trigger fired.
func (s *Sched) Trace() ([]string, map[string]int, bool) {
	s.mu.Lock()
	defer s.mu.Unlock()
	c := make(map[string]int, len(s.counts))
	for k, v := range s.counts {
		c[k] = v
	}
	return append([]string(nil), s.trace...), c, s.fired
}

// Signature is a hash of the event order.
func (s *Sched) Signature() uint64 {
	s.mu.Lock()
	defer s.mu.Unlock()
	h := uint64(14695981039346656037)
	for _, p := range s.trace {
		for i := 0; i < len(p); i++ {
			h ^= uint64(p[i])
			h *= 1099511628211
		}
		h ^= 0xff
		h *= 1099511628211
	}
	return h
}

// Total is the number of hook events seen.
func (s *Sched) Total() int {
	s.mu.Lock()
	defer s.mu.Unlock()
	return s.total
}
