package mon

import (
	"errors"
	"io"
	"runtime"
	"sync"
	"time"
)

// ErrReader / ErrWriter are the sentinels injected faults return.
var (
	ErrReader = errors.New("verif: injected reader failure")
	ErrWriter = errors.New("verif: injected writer failure")
)

// FaultReader delivers the first K bytes of Doc in chunks and then fails with Err forever.
// K < 0 means never fail (plain EOF at the end). OnByte, if set, is called with the number of
// bytes delivered so far after every chunk (used to cancel a context at an input offset).
type FaultReader struct {
	mu      sync.Mutex
	Doc     []byte
	K       int
	Chunk   int // max chunk size (>=1)
	Yield   bool
	Delay   time.Duration
	Err     error
	OnByte  func(delivered int)
	// Block, if set, makes every Read wait until the channel is closed (a terminal, a socket or a
	// pipe whose producer says nothing); afterwards the reader behaves as configured
	Block   chan struct{}
	// BlockFrom: with Block set, only Reads at or beyond this offset wait (0 = every Read)
	BlockFrom int
	// ErrWithData: the failing Read hands out the last bytes before offset K TOGETHER with the
	// error (n > 0 and err != nil in one call), as the io.Reader contract allows
	ErrWithData bool
	// Transient: the error at offset K is returned ONCE (a deadline its owner then extends, an
	// interrupted read); the Reads that follow deliver the rest of the document and EOF
	Transient bool
	pos     int
	Failed  int // number of times Err was returned
	Reads   int
	onceRet bool
}

func (f *FaultReader) Read(p []byte) (int, error) {
	if f.Block != nil {
		f.mu.Lock()
		wait := f.pos >= f.BlockFrom
		f.mu.Unlock()
		if wait {
			<-f.Block
		}
	}
	f.mu.Lock()
	defer f.mu.Unlock()
	f.Reads++
	if f.Yield {
		runtime.Gosched()
	}
	if f.Delay > 0 {
		time.Sleep(f.Delay)
	}
	limit := len(f.Doc)
	if f.K >= 0 && f.K < limit {
		limit = f.K
	}
	if f.pos >= limit {
		if f.K >= 0 && f.K <= len(f.Doc) {
			f.Failed++
			e := f.Err
			if e == nil {
				e = ErrReader
			}
			if f.Transient {
				f.K = -1 // from now on the reader is healthy
			}
			return 0, e
		}
		return 0, io.EOF
	}
	n := limit - f.pos
	if f.Chunk > 0 && n > f.Chunk {
		n = f.Chunk
	}
	if n > len(p) {
		n = len(p)
	}
	copy(p, f.Doc[f.pos:f.pos+n])
	f.pos += n
	if f.OnByte != nil {
		f.OnByte(f.pos)
	}
	if f.ErrWithData && f.pos >= limit && f.K >= 0 && f.K <= len(f.Doc) {
		f.Failed++
		e := f.Err
		if e == nil {
			e = ErrReader
		}
		return n, e
	}
	return n, nil
}

// Delivered is the number of bytes handed out.
func (f *FaultReader) Delivered() int {
	f.mu.Lock()
	defer f.mu.Unlock()
	return f.pos
}

// RecWriter records everything written; optionally fails the write with index FailAt
// (0-based; <0 never). Short makes the failing write accept half of its bytes.
// After the first failure every later write fails too (a broken pipe stays broken).
type RecWriter struct {
	mu         sync.Mutex
	Buf        []byte
	Writes     int
	FailAt     int
	Short      bool
	Transient  bool // only the write with index FailAt fails; later writes succeed again
	FullCount  bool // the failing write reports ALL bytes as taken together with the error (n == len(p), err != nil), as some forwarding writers do
	Yield      bool
	Delay      time.Duration
	DelayPerKB time.Duration // additional time per 1024 bytes of a write: a consumer with a bandwidth
	Failed     int
	Err        error // what a failing write returns (nil = ErrWriter)
	Concurrent int // max concurrent Write calls observed (must stay 1)
	inflight   int
	OnWrite    func(i int)
	// Block, if set, makes every Write wait until the channel is closed (a consumer that has
	// stopped reading), then fail
	Block chan struct{}
	// unsync is touched by every Write WITHOUT the recorder's own lock: two Write calls that the
	// callee does not order (one lock, one goroutine) are then a data race the race detector
	// reports, whether or not they happen to overlap in time. Never read.
	unsync int
}

// NewRecWriter returns a writer that never fails.
func NewRecWriter() *RecWriter { return &RecWriter{FailAt: -1} }

func (w *RecWriter) Write(p []byte) (int, error) {
	w.unsync++
	w.mu.Lock()
	w.inflight++
	if w.inflight > w.Concurrent {
		w.Concurrent = w.inflight
	}
	i := w.Writes
	w.Writes++
	yield, delay := w.Yield, w.Delay+w.DelayPerKB*time.Duration(len(p))/1024
	cb := w.OnWrite
	w.mu.Unlock()

	if cb != nil {
		cb(i)
	}
	if yield {
		runtime.Gosched()
	}
	if delay > 0 {
		time.Sleep(delay)
	}

	if w.Block != nil {
		<-w.Block
		w.mu.Lock()
		w.inflight--
		w.Failed++
		w.mu.Unlock()
		return 0, ErrWriter
	}
	w.mu.Lock()
	defer w.mu.Unlock()
	w.inflight--
	if w.FailAt >= 0 && (i == w.FailAt || (i > w.FailAt && !w.Transient)) {
		w.Failed++
		e := w.Err
		if e == nil {
			e = ErrWriter
		}
		if w.Short && i == w.FailAt && len(p) > 1 {
			n := len(p) / 2
			w.Buf = append(w.Buf, p[:n]...)
			return n, e
		}
		if w.FullCount {
			return len(p), e
		}
		return 0, e
	}
	w.Buf = append(w.Buf, p...)
	return len(p), nil
}

// Bytes returns what was accepted.
func (w *RecWriter) Bytes() []byte {
	w.mu.Lock()
	defer w.mu.Unlock()
	return append([]byte(nil), w.Buf...)
}

// Stats returns (writes, failed writes, max concurrent writes).
func (w *RecWriter) Stats() (int, int, int) {
	w.mu.Lock()
	defer w.mu.Unlock()
	return w.Writes, w.Failed, w.Concurrent
}
