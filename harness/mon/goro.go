package mon

import (
	"runtime"
	"sort"
	"strconv"
	"strings"
	"time"
)

// G is one parsed goroutine of a runtime.Stack(all) dump.
type G struct {
	ID        int
	State     string   // wait reason without duration, e.g. "chan send"
	Funcs     []string // function names, innermost first
	CreatedBy string
	Raw       string
}

const gtreePkg = "github.com/ddddddO/gtree"

// IsGtree tells whether the goroutine runs or was started by gtree code.
func (g *G) IsGtree() bool {
	if strings.Contains(g.CreatedBy, gtreePkg) {
		return true
	}
	for _, f := range g.Funcs {
		if strings.HasPrefix(f, gtreePkg) {
			return true
		}
	}
	return false
}

// InnerGtree is the innermost gtree function on the stack (or the creator).
func (g *G) InnerGtree() string {
	for _, f := range g.Funcs {
		if strings.HasPrefix(f, gtreePkg) {
			return trimFunc(f)
		}
	}
	return "created-by:" + trimFunc(g.CreatedBy)
}

func trimFunc(f string) string {
	f = strings.TrimPrefix(f, gtreePkg)
	f = strings.TrimPrefix(f, ".")
	if i := strings.Index(f, " in goroutine"); i >= 0 {
		f = f[:i]
	}
	// strip generic instantiation noise and argument lists
	if i := strings.Index(f, "[..."); i >= 0 {
		f = f[:i] + f[i+5:]
	}
	return f
}

// HasHarness tells whether harness (user) code is on the stack.
func (g *G) HasHarness() bool {
	for _, f := range g.Funcs {
		if strings.HasPrefix(f, "gtverif/") || strings.HasPrefix(f, "main.") {
			return true
		}
	}
	return false
}

var blockedStates = map[string]bool{
	"chan send": true, "chan receive": true, "select": true, "sync.WaitGroup.Wait": true,
	"sync.Mutex.Lock": true, "sync.RWMutex.Lock": true, "sync.RWMutex.RLock": true, "semacquire": true,
	"sync.Cond.Wait": true, "select (no cases)": true, "chan send (nil chan)": true,
	"chan receive (nil chan)": true, "coroutine": true,
}

// Blocked: in a state only another goroutine can end.
func (g *G) Blocked() bool { return blockedStates[g.State] }

// Dump returns all goroutines.
func Dump() []G {
	buf := make([]byte, 1<<20)
	for {
		n := runtime.Stack(buf, true)
		if n < len(buf) {
			buf = buf[:n]
			break
		}
		buf = make([]byte, 2*len(buf))
	}
	var out []G
	for _, blk := range strings.Split(string(buf), "\n\n") {
		blk = strings.TrimSpace(blk)
		if !strings.HasPrefix(blk, "goroutine ") {
			continue
		}
		lines := strings.Split(blk, "\n")
		head := lines[0]
		g := G{Raw: blk}
		rest := strings.TrimPrefix(head, "goroutine ")
		sp := strings.IndexByte(rest, ' ')
		if sp < 0 {
			continue
		}
		g.ID, _ = strconv.Atoi(rest[:sp])
		if a, b := strings.IndexByte(rest, '['), strings.LastIndexByte(rest, ']'); a >= 0 && b > a {
			st := rest[a+1 : b]
			if c := strings.IndexByte(st, ','); c >= 0 {
				st = st[:c]
			}
			g.State = st
		}
		for _, l := range lines[1:] {
			if strings.HasPrefix(l, "\t") {
				continue
			}
			if strings.HasPrefix(l, "created by ") {
				g.CreatedBy = strings.TrimPrefix(l, "created by ")
				continue
			}
			if i := strings.LastIndexByte(l, '('); i > 0 {
				l = l[:i]
			}
			g.Funcs = append(g.Funcs, l)
		}
		out = append(out, g)
	}
	return out
}

// LeakReport describes goroutines left behind by a call.
type LeakReport struct {
	Leaked    []G
	Signature string // sorted distinct "(function, wait reason)" pairs
	Active    bool   // gtree goroutines still active at the settle limit: inconclusive
}

// LeakMonitor remembers goroutine ids it already reported.
type LeakMonitor struct {
	known map[int]bool
}

func NewLeakMonitor() *LeakMonitor { return &LeakMonitor{known: map[int]bool{}} }

// KnownCount is the number of leaked goroutines accumulated in this process.
func (m *LeakMonitor) KnownCount() int { return len(m.known) }

func sigOf(gs []G) string {
	set := map[string]bool{}
	for i := range gs {
		set[gs[i].InnerGtree()+" ["+gs[i].State+"]"] = true
	}
	var ks []string
	for k := range set {
		ks = append(ks, k)
	}
	sort.Strings(ks)
	return strings.Join(ks, "; ")
}

func (m *LeakMonitor) gtreeNew() []G {
	var out []G
	for _, g := range Dump() {
		if m.known[g.ID] || !g.IsGtree() {
			continue
		}
		out = append(out, g)
	}
	return out
}

func sameIDs(a, b []G) bool {
	if len(a) != len(b) {
		return false
	}
	ids := map[int]bool{}
	for i := range a {
		ids[a[i].ID] = true
	}
	for i := range b {
		if !ids[b[i].ID] {
			return false
		}
	}
	return true
}

func allBlocked(gs []G) bool {
	for i := range gs {
		if !gs[i].Blocked() {
			return false
		}
	}
	return true
}

// AfterCall is to be called after a gtree call returned (one call at a time). It returns nil
// when no new gtree goroutine remains; a report when goroutines are permanently stuck
// (same ids, all blocked, in two observations >= confirm apart) or still active after settle.
func (m *LeakMonitor) AfterCall(baseline int) *LeakReport {
	if runtime.NumGoroutine() <= baseline {
		return nil
	}
	const confirm = 200 * time.Millisecond
	const settle = 20 * time.Second
	start := time.Now()
	wait := time.Millisecond
	var cand []G
	var candAt time.Time
	for {
		gs := m.gtreeNew()
		if len(gs) == 0 {
			return nil
		}
		if allBlocked(gs) {
			if cand != nil && sameIDs(cand, gs) {
				if time.Since(candAt) >= confirm {
					for i := range gs {
						m.known[gs[i].ID] = true
					}
					return &LeakReport{Leaked: gs, Signature: sigOf(gs)}
				}
			} else {
				cand, candAt = gs, time.Now()
			}
		} else {
			cand = nil
		}
		if time.Since(start) > settle {
			for i := range gs {
				m.known[gs[i].ID] = true
			}
			return &LeakReport{Leaked: gs, Signature: sigOf(gs), Active: true}
		}
		time.Sleep(wait)
		if wait < 50*time.Millisecond {
			wait *= 2
		}
	}
}

// GuardResult is the outcome of RunGuarded.
type GuardResult struct {
	Returned  bool
	Hung      bool   // deadlock: nobody can make progress
	Timeout   bool   // watchdog fired while goroutines were active: inconclusive
	Panic     any    // panic recovered in the calling goroutine
	PanicStk  string // its stack
	Signature string
	Dump      string
}

// RunGuarded runs fn (one gtree call) in its own goroutine and watches it. Hang = every gtree
// goroutine including the caller is blocked, with the same ids, in two observations >= confirm
// apart, and no harness code is live in any of them except at the bottom of the caller.
func (m *LeakMonitor) RunGuarded(fn func(), watchdog time.Duration) GuardResult {
	done := make(chan GuardResult, 1)
	go func() {
		defer func() {
			if p := recover(); p != nil {
				buf := make([]byte, 16<<10)
				n := runtime.Stack(buf, false)
				done <- GuardResult{Returned: true, Panic: p, PanicStk: string(buf[:n])}
			}
		}()
		fn()
		done <- GuardResult{Returned: true}
	}()
	const confirm = 300 * time.Millisecond
	start := time.Now()
	t := time.NewTimer(100 * time.Millisecond)
	defer t.Stop()
	var cand []G
	var candAt time.Time
	for {
		select {
		case r := <-done:
			return r
		case <-t.C:
		}
		gs := m.gtreeNew()
		if len(gs) > 0 && allBlocked(gs) && !sleepingHarness() {
			if cand != nil && sameIDs(cand, gs) {
				if time.Since(candAt) >= confirm {
					var sb strings.Builder
					for i := range gs {
						sb.WriteString(gs[i].Raw)
						sb.WriteString("\n\n")
					}
					return GuardResult{Hung: true, Signature: sigOf(gs), Dump: sb.String()}
				}
			} else {
				cand, candAt = gs, time.Now()
			}
		} else {
			cand = nil
		}
		if time.Since(start) > watchdog {
			var sb strings.Builder
			for i := range gs {
				sb.WriteString(gs[i].Raw)
				sb.WriteString("\n\n")
			}
			return GuardResult{Timeout: true, Signature: sigOf(gs), Dump: sb.String()}
		}
		t.Reset(100 * time.Millisecond)
	}
}

// sleepingHarness: some goroutine with harness code on top is sleeping/running/runnable,
// i.e. user code (reader/writer/callback/hook delay) may still wake the pipeline.
func sleepingHarness() bool {
	for _, g := range Dump() {
		if !g.IsGtree() {
			continue
		}
		if !g.Blocked() {
			return true
		}
	}
	return false
}

// Quiesce waits until no gtree goroutine of an earlier call can still act: every remaining one
// is gone or blocked forever (two consecutive observations). It does not judge; it keeps a
// late pipeline goroutine of one case from touching the next case's jail or working directory.
// baseline is runtime.NumGoroutine() taken before the call.
func (m *LeakMonitor) Quiesce(baseline int) {
	if runtime.NumGoroutine() <= baseline {
		return
	}
	deadline := time.Now().Add(10 * time.Second)
	wait := 200 * time.Microsecond
	stable := 0
	for time.Now().Before(deadline) {
		gs := m.gtreeNew()
		if len(gs) == 0 {
			return
		}
		if allBlocked(gs) {
			stable++
			if stable >= 3 {
				for i := range gs {
					m.known[gs[i].ID] = true
				}
				return
			}
		} else {
			stable = 0
		}
		time.Sleep(wait)
		if wait < 20*time.Millisecond {
			wait *= 2
		}
	}
}
