// Package model is the reference model of gtree's observable behaviour.
// It shares no code and no algorithm with gtree: trees are plain recursive values,
// rendering is top-down with explicit "is last child" flags.
package model

import (
	"sort"
	"strings"
)

// Node is a model tree node.
type Node struct {
	Name string
	Kids []*Node
}

// Forest is an ordered list of roots.
type Forest []*Node

// Branch holds the four branch strings: connector and continuation for an intermediate node
// and for a last node.
type Branch struct {
	MidConn, MidCont   string // "├──", "│   "
	LastConn, LastCont string // "└──", "    "
}

// DefaultBranch is gtree's default.
var DefaultBranch = Branch{"├──", "│   ", "└──", "    "}

// Clone deep-copies a forest.
func (f Forest) Clone() Forest {
	out := make(Forest, len(f))
	for i, n := range f {
		out[i] = n.Clone()
	}
	return out
}

// Clone deep-copies a node.
func (n *Node) Clone() *Node {
	c := &Node{Name: n.Name}
	for _, k := range n.Kids {
		c.Kids = append(c.Kids, k.Clone())
	}
	return c
}

// Size is the number of nodes.
func (f Forest) Size() int {
	s := 0
	for _, n := range f {
		s += n.Size()
	}
	return s
}

func (n *Node) Size() int {
	s := 1
	for _, k := range n.Kids {
		s += k.Size()
	}
	return s
}

// Depth of the forest (roots at 1).
func (f Forest) Depth() int {
	d := 0
	for _, n := range f {
		if x := n.Depth(); x > d {
			d = x
		}
	}
	return d
}

func (n *Node) Depth() int {
	d := 0
	for _, k := range n.Kids {
		if x := k.Depth(); x > d {
			d = x
		}
	}
	return d + 1
}

// Merge collapses equally named siblings under one parent: the first occurrence keeps its
// position, later occurrences contribute their children (recursively). Roots are not merged.
func Merge(f Forest) Forest {
	out := make(Forest, len(f))
	for i, r := range f {
		out[i] = &Node{Name: r.Name, Kids: mergeKids(r.Kids)}
	}
	return out
}

func mergeKids(kids []*Node) []*Node {
	var order []string
	groups := map[string][]*Node{}
	for _, k := range kids {
		if _, ok := groups[k.Name]; !ok {
			order = append(order, k.Name)
		}
		groups[k.Name] = append(groups[k.Name], k.Kids...)
	}
	out := make([]*Node, 0, len(order))
	for _, name := range order {
		out = append(out, &Node{Name: name, Kids: mergeKids(groups[name])})
	}
	return out
}

// HasMerge reports whether merging changes the forest.
func HasMerge(f Forest) bool { return Merge(f).Size() != f.Size() }

// Row is what a walk visit exposes.
type Row struct {
	Row      string
	Branch   string
	Name     string
	Level    int
	Path     string
	HasChild bool
}

// Rows computes, top-down, the rows of an (already merged) forest.
func Rows(f Forest, b Branch) []Row {
	var out []Row
	for _, r := range f {
		out = append(out, Row{Row: r.Name, Branch: "", Name: r.Name, Level: 1, Path: r.Name, HasChild: len(r.Kids) > 0})
		rowsKids(r.Kids, b, "", r.Name, 2, &out)
	}
	return out
}

func rowsKids(kids []*Node, b Branch, prefix, parentPath string, level int, out *[]Row) {
	for i, k := range kids {
		last := i == len(kids)-1
		conn, cont := b.MidConn, b.MidCont
		if last {
			conn, cont = b.LastConn, b.LastCont
		}
		br := prefix + conn
		p := parentPath + "/" + k.Name
		*out = append(*out, Row{Row: br + " " + k.Name, Branch: br, Name: k.Name, Level: level, Path: p, HasChild: len(k.Kids) > 0})
		rowsKids(k.Kids, b, prefix+cont, p, level+1, out)
	}
}

// Render is the text output of an (already merged) forest.
func Render(f Forest, b Branch) string {
	var sb strings.Builder
	for _, r := range Rows(f, b) {
		sb.WriteString(r.Row)
		sb.WriteByte('\n')
	}
	return sb.String()
}

// RenderBlocks is Render per root.
func RenderBlocks(f Forest, b Branch) []string {
	out := make([]string, len(f))
	for i, r := range f {
		out[i] = Render(Forest{r}, b)
	}
	return out
}

// Paths is the list of "/"-joined node paths of a merged forest, in pre-order.
func Paths(f Forest) []string {
	var out []string
	for _, r := range Rows(f, DefaultBranch) {
		out = append(out, r.Path)
	}
	return out
}

// IsFile tells whether a node is created as a regular file: childless and its name ends with
// one of the extensions.
func IsFile(n *Node, exts []string) bool {
	if len(n.Kids) > 0 {
		return false
	}
	for _, e := range exts {
		if strings.HasSuffix(n.Name, e) {
			return true
		}
	}
	return false
}

// Entry is one filesystem entry the model expects.
type Entry struct {
	Path string
	File bool
}

// FSEntries lists the entries a Mkdir of the merged forest creates, sorted by path.
func FSEntries(f Forest, exts []string) []Entry {
	var out []Entry
	var walk func(n *Node, p string)
	walk = func(n *Node, p string) {
		out = append(out, Entry{Path: p, File: IsFile(n, exts)})
		for _, k := range n.Kids {
			walk(k, p+"/"+k.Name)
		}
	}
	for _, r := range f {
		walk(r, r.Name)
	}
	sort.Slice(out, func(i, j int) bool { return out[i].Path < out[j].Path })
	return out
}

// Counts gives per root the number of directories and files a Mkdir creates.
func Counts(root *Node, exts []string) (dirs, files int) {
	var walk func(n *Node)
	walk = func(n *Node) {
		if IsFile(n, exts) {
			files++
		} else {
			dirs++
		}
		for _, k := range n.Kids {
			walk(k)
		}
	}
	walk(root)
	return
}

// DryRunReport is the colourless dry-run report of a merged forest.
func DryRunReport(f Forest, b Branch, exts []string) string {
	var sb strings.Builder
	for _, blk := range DryRunBlocks(f, b, exts) {
		sb.WriteString(blk)
	}
	return sb.String()
}

// DryRunBlocks is the report per root.
func DryRunBlocks(f Forest, b Branch, exts []string) []string {
	out := make([]string, len(f))
	for i, r := range f {
		d, fl := Counts(r, exts)
		out[i] = Render(Forest{r}, b) + "\n" + itoa(d) + " directories, " + itoa(fl) + " files\n"
	}
	return out
}

func itoa(n int) string {
	if n == 0 {
		return "0"
	}
	s := ""
	for n > 0 {
		s = string(rune('0'+n%10)) + s
		n /= 10
	}
	return s
}

// Equal compares two forests structurally.
func Equal(a, b Forest) bool {
	if len(a) != len(b) {
		return false
	}
	for i := range a {
		if !EqualNode(a[i], b[i]) {
			return false
		}
	}
	return true
}

func EqualNode(a, b *Node) bool {
	if a.Name != b.Name || len(a.Kids) != len(b.Kids) {
		return false
	}
	for i := range a.Kids {
		if !EqualNode(a.Kids[i], b.Kids[i]) {
			return false
		}
	}
	return true
}

// String is a compact, unambiguous-enough notation used in samples and keys: name(kids...).
func (f Forest) String() string {
	var sb strings.Builder
	for i, r := range f {
		if i > 0 {
			sb.WriteByte(' ')
		}
		r.write(&sb)
	}
	return sb.String()
}

func (n *Node) write(sb *strings.Builder) {
	sb.WriteString(strconvQuoteIfNeeded(n.Name))
	if len(n.Kids) > 0 {
		sb.WriteByte('(')
		for i, k := range n.Kids {
			if i > 0 {
				sb.WriteByte(' ')
			}
			k.write(sb)
		}
		sb.WriteByte(')')
	}
}

func strconvQuoteIfNeeded(s string) string {
	plain := s != ""
	for _, r := range s {
		if !(r >= 'a' && r <= 'z' || r >= 'A' && r <= 'Z' || r >= '0' && r <= '9' || r == '.' || r == '_') {
			plain = false
			break
		}
	}
	if plain {
		return s
	}
	return "\"" + strings.NewReplacer("\\", "\\\\", "\"", "\\\"", "\n", "\\n", "\r", "\\r", "\t", "\\t").Replace(s) + "\""
}
