package checks

import (
	"runtime"
	"context"
	"io"
	"strconv"
	"strings"
	"time"

	"github.com/ddddddO/gtree"
	"github.com/fatih/color"

	"gtverif/gen"
	"gtverif/model"
	"gtverif/mon"
)

// C12 — no input can crash or hang the library. Oracle: process-level (worker death attributed
// to the journalled input), in-goroutine recover, deadlock monitor; empty / blank-only input
// must give empty output and nil.

func init() {
	Register(&Check{Prop: "C12", Run: runC12, Replay: func(c *Ctx, cs *Case) { evalC12(c, cs, mon.NewLeakMonitor()) }})
}

type c12Entry struct {
	name    string
	massive bool
	fs      bool // needs a jail
	// returns (bytes written, callbacks, outcome)
	run func(doc string, ctx context.Context, target string) ([]byte, int, Outcome)
}

func c12Entries() []c12Entry {
	var es []c12Entry
	out := func(name string, extra ...gtree.Option) {
		for _, massive := range []bool{false, true} {
			massive := massive
			es = append(es, c12Entry{name: "OutputFromMarkdown[" + name + "]", massive: massive, run: func(doc string, ctx context.Context, _ string) ([]byte, int, Outcome) {
				opts := append([]gtree.Option{}, extra...)
				if massive {
					opts = append(opts, gtree.WithMassive(ctx))
				}
				o := OutputMD(doc, opts...)
				return o.Out, 0, o
			}})
		}
	}
	out("text")
	// the same entry points with a writer that fails from its k-th write on: still no panic, no hang
	// a stream that delivers a few roots and then says nothing more (no EOF), into a writer that
	// fails at once: the call has its error after the first root and must come back with it
	// (only for the documents made for this entry, see "stalling-reader" below)
	for _, mode := range []string{"text", "json", "dryrun"} {
		mode := mode
		es = append(es, c12Entry{name: "OutputFromMarkdown[" + mode + ",writer-fails-at-0,reader-stalls-after-the-document]", massive: false, run: func(doc string, ctx context.Context, _ string) ([]byte, int, Outcome) {
			if !strings.HasPrefix(doc, c12StallPrefix) {
				return nil, 0, Outcome{}
			}
			var opts []gtree.Option
			switch mode {
			case "json":
				opts = append(opts, gtree.WithEncodeJSON())
			case "dryrun":
				opts = append(opts, gtree.WithDryRun())
			}
			w := mon.NewRecWriter()
			w.FailAt = 0
			block := make(chan struct{})
			rd := &mon.FaultReader{Doc: []byte(doc), K: -1, Block: block, BlockFrom: len(doc)}
			o := Guard(func() error { return gtree.OutputFromMarkdown(w, rd, opts...) })
			close(block)
			if o.Err == nil && o.Panic == nil {
				o.Panic = "nil although the writer failed at its first write"
			}
			o.Err = nil
			return nil, 0, o
		}})
	}
	for _, k := range []int{0, 1, 3} {
		k := k
		for _, mode := range []string{"text", "json", "dryrun", "yaml"} {
			mode := mode
			for _, massive := range []bool{false, true} {
				massive := massive
				es = append(es, c12Entry{name: "OutputFromMarkdown[" + mode + ",writer-fails-at-" + strconv.Itoa(k) + "]", massive: massive, run: func(doc string, ctx context.Context, _ string) ([]byte, int, Outcome) {
					var opts []gtree.Option
					switch mode {
					case "json":
						opts = append(opts, gtree.WithEncodeJSON())
					case "yaml":
						opts = append(opts, gtree.WithEncodeYAML())
					case "dryrun":
						opts = append(opts, gtree.WithDryRun())
					}
					if massive {
						opts = append(opts, gtree.WithMassive(ctx))
					}
					w := mon.NewRecWriter()
					w.FailAt = k
					o := Guard(func() error { return gtree.OutputFromMarkdown(w, MDReader(doc), opts...) })
					return nil, 0, o
				}})
			}
		}
	}
	out("text.noiter", gtree.WithNoUseIterOfSimpleOutput())
	// custom branch strings: the tuple rotates with the case (c12BranchSel), so that every length
	// relation between the four strings meets every kind of input
	for _, massive := range []bool{false, true} {
		massive := massive
		es = append(es, c12Entry{name: "OutputFromMarkdown[branch]", massive: massive, run: func(doc string, ctx context.Context, _ string) ([]byte, int, Outcome) {
			opts := BranchOptions(c12BranchSel % len(BranchTuples))
			if massive {
				opts = append(opts, gtree.WithMassive(ctx))
			}
			o := OutputMD(doc, opts...)
			return o.Out, 0, o
		}})
	}
	out("json", gtree.WithEncodeJSON())
	out("json+dryrun", gtree.WithEncodeJSON(), gtree.WithDryRun())
	out("dryrun+yaml+ext", gtree.WithDryRun(), gtree.WithEncodeYAML(), gtree.WithFileExtensions([]string{".go", ""}))
	out("yaml", gtree.WithEncodeYAML())
	out("toml", gtree.WithEncodeTOML())
	out("dryrun", gtree.WithDryRun(), gtree.WithFileExtensions([]string{".go"}))
	for _, massive := range []bool{false, true} {
		massive := massive
		es = append(es, c12Entry{name: "WalkFromMarkdown", massive: massive, run: func(doc string, ctx context.Context, _ string) ([]byte, int, Outcome) {
			var opts []gtree.Option
			if massive {
				opts = append(opts, gtree.WithMassive(ctx))
			}
			rows, o := WalkMD(doc, opts...)
			return nil, len(rows), o
		}})
		es = append(es, c12Entry{name: "MkdirFromMarkdown[dryrun]", massive: massive, fs: true, run: func(doc string, ctx context.Context, target string) ([]byte, int, Outcome) {
			// "every option combination": option VALUES of length zero included (an empty extension
			// and an extension list without entries are legal)
			opts := []gtree.Option{gtree.WithDryRun(), gtree.WithTargetDir(target), gtree.WithFileExtensions([][]string{{".go", ""}, {}, {""}}[len(doc)%3])}
			if massive {
				opts = append(opts, gtree.WithMassive(ctx))
			}
			return nil, 0, Guard(func() error { return gtree.MkdirFromMarkdown(MDReader(doc), opts...) })
		}})
		es = append(es, c12Entry{name: "MkdirFromMarkdown[real]", massive: massive, fs: true, run: func(doc string, ctx context.Context, target string) ([]byte, int, Outcome) {
			opts := []gtree.Option{gtree.WithTargetDir(target), gtree.WithFileExtensions([]string{".go"})}
			if massive {
				opts = append(opts, gtree.WithMassive(ctx))
			}
			return nil, 0, Guard(func() error { return gtree.MkdirFromMarkdown(MDReader(doc), opts...) })
		}})
		for _, strict := range []bool{false, true} {
			strict := strict
			es = append(es, c12Entry{name: "VerifyFromMarkdown[strict=" + strconv.FormatBool(strict) + "]", massive: massive, fs: true, run: func(doc string, ctx context.Context, target string) ([]byte, int, Outcome) {
				opts := []gtree.Option{gtree.WithTargetDir(target)}
				if strict {
					opts = append(opts, gtree.WithStrictVerify())
				}
				if massive {
					opts = append(opts, gtree.WithMassive(ctx))
				}
				return nil, 0, Guard(func() error { return gtree.VerifyFromMarkdown(MDReader(doc), opts...) })
			}})
		}
	}
	return es
}

func c12Tags(doc string) []string {
	var tags []string
	if doc == "" {
		tags = append(tags, "empty")
	}
	if gen.BlankOnly(doc) {
		tags = append(tags, "blank-only")
	}
	for _, l := range strings.Split(doc, "\n") {
		if strings.HasPrefix(l, "#") {
			tags = append(tags, "has-sharp-line")
			break
		}
	}
	return tags
}

func runC12(c *Ctx) bool {
	color.Output = io.Discard
	lm := mon.NewLeakMonitor()
	idx := 0
	emit := func(kind, doc string) {
		i := idx
		idx++
		if !c.Mine(i) {
			return
		}
		cs := &Case{Idx: i, Kind: kind}
		cs.SetDoc(doc)
		c.Journal(cs)
		evalC12(c, cs, lm)
		c.Progress(false)
	}
	for _, d := range gen.Degenerate {
		emit("degenerate", d)
	}
	// blank-only family
	for i := 0; i < 40; i++ {
		r := gen.New(7, uint64(i))
		var sb strings.Builder
		for k := r.Intn(6); k >= 0; k-- {
			sb.WriteString([]string{"", " ", "\t", "  \t", "\r"}[r.Intn(5)])
			if k > 0 || r.Chance(1, 2) {
				sb.WriteString([]string{"\n", "\r\n"}[r.Intn(2)])
			}
		}
		emit("blank-only", sb.String())
	}
	// ... and lines of white space that is not ASCII (what an input method or a web page leaves on an
	// "empty" line): blank all the same
	for _, d := range []string{"\u3000\n", "\u00a0", "\u3000\n\u00a0\t\n\u2003 \n", "\u0085\n", "\u2028", " \u3000 \r\n\u2000\u200a\r\n", "\v\f\n"} {
		emit("blank-only", d)
	}
	// several root blocks, each with a name no directory can have: every block fails where names are
	// validated, and all the failures must find their way out
	for _, d := range []string{"- r1\n  - a/b\n- r2\n  - c/d\n- r3\n  - ..\n", "- r1\n  - a/b\n- r2\n  - c/d\n- r3\n  - e/f\n- r4\n  - g/h\n- r5\n  - ../x\n- r6\n  - ok\n"} {
		emit("several-invalid-roots", d)
	}
	// size extremes
	big := []string{
		"- " + strings.Repeat("x", 65533) + "\n",
		"- " + strings.Repeat("x", 65534) + "\n- b\n",
		"- " + strings.Repeat("x", 65536) + "\n",
		"- a\n  - " + strings.Repeat("y", 200000) + "\n",
		strings.Repeat(" ", 70000) + "- a\n",
		strings.Repeat("- r\n", c.Pick(20000, 100000)),
	}
	var deep strings.Builder
	for d := 0; d < c.Pick(600, 2000); d++ {
		deep.WriteString(strings.Repeat(" ", d) + "- n\n")
	}
	big = append(big, deep.String())
	if c.Race {
		// race shards: the detector costs 5-15x; the size extremes stay with the plain shards
		big = nil
	}
	for _, d := range big {
		emit("size-extreme", d)
	}
	for _, d := range []string{c12StallPrefix + "  - kid\n- stall-root-2\n- stall-root-3\n  - kid\n", c12StallPrefix + "- stall-root-2\n"} {
		emit("stalling-reader", d)
	}
	nMut := c.Pick(5000, 200000)
	if c.Race {
		nMut = c.Pick(600, 12000)
	}
	for j := 0; j < nMut; j++ {
		r := gen.New(c.Seed, 1201, uint64(j))
		f := gen.RandForest(r, []int{4, 10, 30}[r.Intn(3)], r.Range(2, 8), allNameClasses, 15)
		doc := gen.Spell(f, gen.RandSpelling(r))
		if c.Race && j%2 == 0 {
			// under the race detector every second document stays as spelled, so that the calls get
			// past the parser and all stages of the massive mode run with several roots in flight
			emit("spelled", doc)
			continue
		}
		emit("mutated", gen.MutateDoc(r, doc))
	}
	nRaw := c.Pick(3000, 100000)
	if c.Race {
		nRaw = c.Pick(200, 4000)
	}
	for j := 0; j < nRaw; j++ {
		r := gen.New(c.Seed, 1202, uint64(j))
		emit("raw", gen.RawBytes(r))
	}
	// programmatic trees with hostile names (incl. empty and LF)
	nProg := c.Pick(600, 20000)
	if c.Race {
		nProg = c.Pick(100, 2000)
	}
	for j := 0; j < nProg; j++ {
		i := idx
		idx++
		if !c.Mine(i) {
			continue
		}
		r := gen.New(c.Seed, 1203, uint64(j))
		f := gen.RandForest(r, 8, 5, allNameClasses, 10)
		depths, names := gen.Depths(f)
		for k := range names {
			if r.Chance(1, 6) {
				names[k] = []string{"", "\n", "a\nb", "\r", " ", "a\r", "\x00", "\xff\xfe", strings.Repeat("n", 300)}[r.Intn(9)]
			}
		}
		// one root only
		for k := 1; k < len(depths); k++ {
			if depths[k] == 1 {
				depths[k] = 2
			}
		}
		cs := &Case{Idx: i, Kind: "from-root", Depths: depths, Names: names}
		c.Journal(cs)
		evalC12Root(c, cs, lm)
		c.Progress(false)
	}
	return true
}

var c12BranchSel int

func evalC12(c *Ctx, cs *Case, lm *mon.LeakMonitor) {
	c12BranchSel = cs.Idx
	doc := string(cs.Doc)
	baseTags := c12Tags(doc)
	blank := gen.BlankOnly(doc)
	heavy := len(doc) > 50000
	var jail *mon.Jail
	defer func() {
		if jail != nil {
			jail.Remove()
		}
	}()
	for ei, e := range c12Entries() {
		if c.Race && !e.massive {
			continue // one call at a time in one goroutine: nothing for the detector to see
		}
		if heavy && ei%3 != cs.Idx%3 && !strings.Contains(e.name, "[text]") {
			continue
		}
		if !heavy && cs.Kind != "degenerate" && cs.Kind != "blank-only" && e.fs && (cs.Idx+ei)%3 != 0 {
			continue // filesystem entry points for a third of the generated inputs
		}
		target := ""
		if e.fs {
			if jail != nil {
				jail.Remove()
			}
			var err error
			jail, err = mon.NewJail(c.TmpDir, true)
			if err != nil {
				c.Inconclusive(cs, "cannot create jail: "+err.Error())
				continue
			}
			target = jail.Target
		}
		cs.Entry = e.name + map[bool]string{true: ",massive", false: ",simple"}[e.massive]
		cs.Tags = append(append([]string{}, baseTags...), map[bool]string{true: "massive", false: "simple"}[e.massive])
		c.Rejournal(cs)
		var out []byte
		var calls int
		var o Outcome
		var g mon.GuardResult
		// every call runs under the guard: massive calls for deadlocks, all calls for the 120 s
		// per-call watchdog (a call on a small input that has not returned by then while its
		// goroutines are still running is reported as non-terminating)
		// a third of the massive calls run on one processor, a third on two
		restoreProcs := c12Procs(c, cs, e.massive, len(doc)+len(e.name))
		g = lm.RunGuarded(func() { out, calls, o = e.run(doc, context.Background(), target) }, 120*time.Second)
		restoreProcs()
		nontrivial := len(doc) > 0
		c.Eval(gen.HashString(doc+"\x00"+cs.Entry), nontrivial)
		c.SetAdd("entries", cs.Entry)
		c.Count("kind."+cs.Kind, 1)
		det := map[string]any{"doc_len": len(doc), "doc": trunc(doc, 600), "err": errStr(o.Err)}
		switch {
		case g.Hung:
			det["dump"] = trunc(g.Dump, 4000)
			c.Violation(cs, "hang", g.Signature, det)
			c.Recycle()
		case g.Timeout:
			if len(doc) <= 10000 {
				// 120 s for an input of a few hundred bytes is more than 10^5 times the normal
				// duration: the call does not terminate for practical purposes
				det["dump"] = trunc(g.Dump, 3000)
				c.Violation(cs, "no-return", g.Signature, det)
			} else {
				c.Inconclusive(cs, "watchdog fired while goroutines were active: "+g.Signature)
			}
			c.Recycle()
		case g.Panic != nil:
			det["stack"] = g.PanicStk
			c.Violation(cs, "panic", PanicSig(g.Panic, g.PanicStk), det)
		case o.Panic != nil:
			det["stack"] = o.Stack
			c.Violation(cs, "panic", PanicSig(o.Panic, o.Stack), det)
		case blank:
			// empty or blank-only input: empty output and nil
			if o.Err != nil {
				c.Violation(cs, "blank.error", "", det)
			} else if len(out) != 0 || calls != 0 {
				det["out"] = trunc(string(out), 300)
				c.Violation(cs, "blank.output", "", det)
			} else if e.fs && jail != nil {
				if d, _ := mon.Snap(jail.Target); len(d) != 0 {
					c.Violation(cs, "blank.created", "", det)
				}
			}
		}
		if c.WantSample(cs.Kind) && ei == 0 {
			c.Sample(cs.Kind, map[string]any{"doc": trunc(doc, 300), "entry": cs.Entry, "err": errStr(o.Err), "out": trunc(string(out), 200)})
		}
	}
	cs.Entry, cs.Tags = "", nil
}

func evalC12Root(c *Ctx, cs *Case, lm *mon.LeakMonitor) {
	f := gen.FromDepths(cs.Depths, cs.Names)
	root := f[0]
	type ent struct {
		name    string
		massive bool
		run     func(ctx context.Context, target string) Outcome
	}
	var es []ent
	for _, massive := range []bool{false, true} {
		massive := massive
		mo := func(ctx context.Context, o ...gtree.Option) []gtree.Option {
			if massive {
				o = append(o, gtree.WithMassive(ctx))
			}
			return o
		}
		for _, enc := range []string{"text", "json", "yaml", "toml"} {
			enc := enc
			es = append(es, ent{"OutputFromRoot[" + enc + "]", massive, func(ctx context.Context, _ string) Outcome {
				var o []gtree.Option
				switch enc {
				case "json":
					o = append(o, gtree.WithEncodeJSON())
				case "yaml":
					o = append(o, gtree.WithEncodeYAML())
				case "toml":
					o = append(o, gtree.WithEncodeTOML())
				}
				w := mon.NewRecWriter()
				g := BuildRoot(root)
				return Guard(func() error { return gtree.OutputFromRoot(w, g, mo(ctx, o...)...) })
			}})
		}
		es = append(es, ent{"WalkFromRoot", massive, func(ctx context.Context, _ string) Outcome {
			rec := NewRowRec()
			g := BuildRoot(root)
			return Guard(func() error { return gtree.WalkFromRoot(g, rec.Callback, mo(ctx)...) })
		}})
		es = append(es, ent{"MkdirFromRoot[dryrun]", massive, func(ctx context.Context, t string) Outcome {
			g := BuildRoot(root)
			return Guard(func() error { return gtree.MkdirFromRoot(g, mo(ctx, gtree.WithDryRun(), gtree.WithTargetDir(t))...) })
		}})
		es = append(es, ent{"MkdirFromRoot[real]", massive, func(ctx context.Context, t string) Outcome {
			g := BuildRoot(root)
			return Guard(func() error {
				return gtree.MkdirFromRoot(g, mo(ctx, gtree.WithTargetDir(t), gtree.WithFileExtensions([]string{".go"}))...)
			})
		}})
		es = append(es, ent{"VerifyFromRoot", massive, func(ctx context.Context, t string) Outcome {
			g := BuildRoot(root)
			return Guard(func() error {
				return gtree.VerifyFromRoot(g, mo(ctx, gtree.WithTargetDir(t), gtree.WithStrictVerify())...)
			})
		}})
	}
	es = append(es, ent{"WalkIterFromRoot", false, func(ctx context.Context, _ string) Outcome {
		g := BuildRoot(root)
		return Guard(func() error {
			for _, err := range gtree.WalkIterFromRoot(g) {
				if err != nil {
					return err
				}
			}
			return nil
		})
	}})
	jail, err := mon.NewJail(c.TmpDir, true)
	if err != nil {
		c.Inconclusive(cs, "cannot create jail")
		return
	}
	defer jail.Remove()
	key := model.Forest{root}.String()
	for _, e := range es {
		cs.Entry = e.name + map[bool]string{true: ",massive", false: ",simple"}[e.massive]
		cs.Tags = []string{"from-root", map[bool]string{true: "massive", false: "simple"}[e.massive]}
		c.Rejournal(cs)
		var o Outcome
		var g mon.GuardResult
		if e.massive {
			restoreProcs := c12Procs(c, cs, true, len(cs.Names)+len(e.name))
			g = lm.RunGuarded(func() { o = e.run(context.Background(), jail.Target) }, 120*time.Second)
			restoreProcs()
		} else {
			o = e.run(context.Background(), jail.Target)
		}
		c.Eval(gen.HashString(key+"\x00"+cs.Entry), true)
		c.SetAdd("entries", cs.Entry)
		c.Count("kind."+cs.Kind, 1)
		det := map[string]any{"tree": key, "err": errStr(o.Err)}
		switch {
		case g.Hung:
			det["dump"] = trunc(g.Dump, 4000)
			c.Violation(cs, "hang", g.Signature, det)
			c.Recycle()
		case g.Timeout:
			c.Inconclusive(cs, "watchdog: "+g.Signature)
			c.Recycle()
		case g.Panic != nil:
			det["stack"] = g.PanicStk
			c.Violation(cs, "panic", PanicSig(g.Panic, g.PanicStk), det)
		case o.Panic != nil:
			det["stack"] = o.Stack
			c.Violation(cs, "panic", PanicSig(o.Panic, o.Stack), det)
		}
	}
	if c.WantSample(cs.Kind) {
		c.Sample(cs.Kind, map[string]any{"tree": key})
	}
	cs.Entry, cs.Tags = "", nil
}

// c12Procs sets GOMAXPROCS for one massive call (1, 2 or unchanged, chosen by k) and returns
// the function that restores it.
const c12StallPrefix = "- stall-root-1\n"

func c12Procs(c *Ctx, cs *Case, massive bool, k int) func() {
	if !massive {
		return func() {}
	}
	p := []int{1, 2, 0}[k%3]
	if p == 0 {
		c.SetAdd("gomaxprocs", "machine")
		return func() {}
	}
	old := runtime.GOMAXPROCS(p)
	cs.AddTag("gomaxprocs=" + strconv.Itoa(p))
	c.SetAdd("gomaxprocs", strconv.Itoa(p))
	return func() { runtime.GOMAXPROCS(old) }
}
