package checks

import (
	"context"
	"strconv"
	"strings"

	"github.com/ddddddO/gtree"

	"gtverif/gen"
	"gtverif/model"
	"gtverif/mon"
)

// C02 — rendered completely or rejected. Oracle: a document with exactly one injected malformed
// line (class and row known to the injector) must return a non-nil error, a format-class
// rejection must contain the row; a well-formed document must return nil and every output mode
// must represent exactly the model's nodes.

func init() {
	Register(&Check{Prop: "C02", Run: runC02, Replay: func(c *Ctx, cs *Case) {
		if cs.Kind == "long-line" {
			evalC02Long(c, cs)
			return
		}
		evalC02(c, cs)
	}})
}

var c02Spellings = []gen.Spelling{
	{Unit: "\t", Bullet: 0, FinalNL: true},
	{Unit: "  ", Bullet: 1, FinalNL: true},
	{Unit: "    ", Bullet: 3, FinalNL: false},
	{Unit: "   ", Bullet: 0, CRLF: true, Blanks: 1, FinalNL: true},
	{Unit: " ", Bullet: 2, Blanks: 2, FinalNL: true},
	{Unit: "\t\t", Bullet: 3, FinalNL: true}, // "whatever you specify": two tabs per level
}

func runC02(c *Ctx) bool {
	nMax := c.Pick(5, 6)
	gen.ForEachLabeled(nMax, 2, []string{"a", "b"}, func(i int, f model.Forest) {
		if !c.Mine(i) {
			return
		}
		cs := &Case{Idx: i, Kind: "exhaustive", Seed: gen.New(c.Seed, 2, uint64(i)).Uint64()}
		cs.Depths, cs.Names = gen.Depths(f)
		c.Journal(cs)
		evalC02(c, cs)
		c.Progress(false)
	})
	base := gen.CountLabeled(nMax, 2)
	// over-long lines (bufio.Scanner's 64 KiB token limit): rejected or rendered completely, never
	// silently lost - whatever the position of the long line
	kSize := 0
	for _, n := range []int{4095, 4096, 4097, 8192, 20000, 65535, 65536, 70000} {
		for pos := 0; pos < 4; pos++ {
			idx := base + kSize
			kSize++
			if !c.Mine(idx) {
				continue
			}
			cs := &Case{Idx: idx, Kind: "long-line", N: []int{n, pos}}
			c.Journal(cs)
			evalC02Long(c, cs)
			c.Progress(false)
		}
	}
	base += kSize
	nRand := c.Pick(5000, 100000)
	for j := 0; j < nRand; j++ {
		idx := base + j
		if !c.Mine(idx) {
			continue
		}
		r := gen.New(c.Seed, 202, uint64(j))
		classes := []int{gen.ClassPlain, gen.ClassBullet, gen.ClassBlankEdge, gen.ClassUnicode, gen.ClassQuoting, gen.ClassExt, gen.ClassCase}
		f := gen.RandForest(r, []int{8, 20, 50}[r.Intn(3)], r.Range(2, 9), classes, []int{0, 20}[r.Intn(2)])
		cs := &Case{Idx: idx, Kind: "random", Seed: r.Uint64()}
		cs.Depths, cs.Names = gen.Depths(f)
		c.Journal(cs)
		evalC02(c, cs)
		c.Progress(false)
	}
	// wide parents with repeated names, deep spines, and documents with more roots than any
	// batch, pool or channel the pipeline may use (66 ... 300 small roots)
	extra := base + nRand
	for k, w := range []int{31, 32, 33, 64, 65, 66, 128, 129, 256, 257, -66, -130, 1066, 1130, 1300, 0} {
		idx := extra + k
		if !c.Mine(idx) {
			continue
		}
		cs := &Case{Idx: idx, Kind: "wide-deep-or-many-roots", Seed: uint64(idx)}
		switch {
		case w > 1000:
			r := gen.New(c.Seed, 203, uint64(k))
			var f model.Forest
			for i := 0; i < w-1000; i++ {
				t := gen.RandForest(r, 3, 3, []int{gen.ClassPlain}, 0)[0]
				t.Name = "root" + strconv.Itoa(i)
				f = append(f, t)
			}
			cs.Depths, cs.Names = gen.Depths(f)
		case w == 0:
			cs.Depths, cs.Names = gen.LongDup()
		case w > 0:
			cs.Depths, cs.Names = gen.WideDup(w, []int{0, w / 2, w - 2, w - 1})
		default:
			cs.Depths, cs.Names = gen.DeepMixed(-w)
		}
		c.Journal(cs)
		evalC02(c, cs)
		c.Progress(false)
	}
	return true
}

// c02Mode is one (code path, output mode) combination.
type c02Mode struct {
	name    string
	massive bool
	run     func(doc string, ctx context.Context) (out []byte, rows []model.Row, o Outcome)
}

func c02Modes() []c02Mode {
	mk := func(name string, massive bool, extra ...gtree.Option) c02Mode {
		return c02Mode{name: name, massive: massive, run: func(doc string, ctx context.Context) ([]byte, []model.Row, Outcome) {
			opts := append([]gtree.Option{}, extra...)
			if massive {
				opts = append(opts, gtree.WithMassive(ctx))
			}
			o := OutputMD(doc, opts...)
			return o.Out, nil, o
		}}
	}
	walk := func(name string, massive bool) c02Mode {
		return c02Mode{name: name, massive: massive, run: func(doc string, ctx context.Context) ([]byte, []model.Row, Outcome) {
			var opts []gtree.Option
			if massive {
				opts = append(opts, gtree.WithMassive(ctx))
			}
			rows, o := WalkMD(doc, opts...)
			return nil, rows, o
		}}
	}
	return []c02Mode{
		mk("text", false),
		mk("text.noiter", false, gtree.WithNoUseIterOfSimpleOutput()),
		mk("json", false, gtree.WithEncodeJSON()),
		mk("yaml", false, gtree.WithEncodeYAML()),
		mk("toml", false, gtree.WithEncodeTOML()),
		mk("dryrun", false, gtree.WithDryRun()),
		walk("walk", false),
		mk("text", true),
		mk("json", true, gtree.WithEncodeJSON()),
		mk("yaml", true, gtree.WithEncodeYAML()),
		mk("dryrun", true, gtree.WithDryRun()),
		walk("walk", true),
	}
}

func modeLabel(m c02Mode) string {
	if m.massive {
		return "FromMarkdown[" + m.name + ",massive]"
	}
	return "FromMarkdown[" + m.name + ",simple]"
}

// sortedBlocks compares two block lists as multisets.
func sameMultiset(a, b []string) bool {
	if len(a) != len(b) {
		return false
	}
	cnt := map[string]int{}
	for _, x := range a {
		cnt[x]++
	}
	for _, x := range b {
		cnt[x]--
		if cnt[x] < 0 {
			return false
		}
	}
	return true
}

// c02Complete decides whether an accepted (nil) result represents exactly the merged forest.
// Massive results are compared up to the order of roots.
func c02Complete(m c02Mode, merged model.Forest, out []byte, rows []model.Row) (bool, string) {
	switch m.name {
	case "text", "text.noiter":
		if !m.massive {
			return string(out) == model.Render(merged, model.DefaultBranch), "text differs from the model's nodes"
		}
		return coverBlocks(string(out), model.RenderBlocks(merged, model.DefaultBranch)), "text is not a permutation of the model's root blocks"
	case "dryrun":
		if !m.massive {
			return string(out) == model.DryRunReport(merged, model.DefaultBranch, nil), "dry-run report differs from the model"
		}
		return coverBlocks(string(out), model.DryRunBlocks(merged, model.DefaultBranch, nil)), "dry-run report is not a permutation of the model's blocks"
	case "json", "yaml", "toml":
		var got model.Forest
		var err error
		switch m.name {
		case "json":
			got, err = DecodeJSONLines(out)
		case "yaml":
			got, err = DecodeYAMLDocs(out)
		default:
			got, err = DecodeTOML(out)
		}
		if err != nil {
			return false, "undecodable: " + err.Error()
		}
		if !m.massive {
			return model.Equal(got, merged), "decoded tree differs from the model"
		}
		var a, b []string
		for _, r := range got {
			a = append(a, model.Forest{r}.String())
		}
		for _, r := range merged {
			b = append(b, model.Forest{r}.String())
		}
		return sameMultiset(a, b), "decoded roots are not a permutation of the model's roots"
	case "walk":
		want := model.Rows(merged, model.DefaultBranch)
		// Path is not compared here (names such as "." are not single path elements; C05 owns Path)
		for i := range rows {
			rows[i].Path = ""
		}
		for i := range want {
			want[i].Path = ""
		}
		if !m.massive {
			return RowsEqual(rows, want), "walk rows differ from the model"
		}
		var a, b []string
		for _, r := range rows {
			a = append(a, r.Path+"\x00"+r.Row)
		}
		for _, r := range want {
			b = append(b, r.Path+"\x00"+r.Row)
		}
		return sameMultiset(a, b), "walk rows are not the model's rows as a multiset"
	}
	return true, ""
}

// coverBlocks decides by backtracking whether s is a concatenation of a permutation of blocks.
func coverBlocks(s string, blocks []string) bool {
	total := 0
	for _, b := range blocks {
		total += len(b)
	}
	if total != len(s) {
		return false
	}
	used := make([]bool, len(blocks))
	var rec func(pos, left int) bool
	rec = func(pos, left int) bool {
		if left == 0 {
			return pos == len(s)
		}
		tried := map[string]bool{}
		for i, b := range blocks {
			if used[i] || tried[b] {
				continue
			}
			tried[b] = true
			if strings.HasPrefix(s[pos:], b) {
				used[i] = true
				if rec(pos+len(b), left-1) {
					return true
				}
				used[i] = false
			}
		}
		return false
	}
	return rec(0, len(blocks))
}

func evalC02(c *Ctx, cs *Case) {
	f := gen.FromDepths(cs.Depths, cs.Names)
	merged := model.Merge(f)
	modes := c02Modes()
	r := gen.New(cs.Seed, 3)
	spellings := c02Spellings
	if cs.Kind != "exhaustive" {
		s := gen.RandSpelling(r)
		s.Heading = 0
		spellings = []gen.Spelling{s}
	}
	fkey := f.String()
	// dry-run validates names as path elements (C07/C09): it is only a "rendering mode" of this
	// property for documents whose names are single valid path elements
	pathOK := true
	for _, n := range cs.Names {
		if !pathElem(n) {
			pathOK = false
		}
	}
	if !pathOK {
		kept := modes[:0:0]
		for _, m := range modes {
			if m.name != "dryrun" {
				kept = append(kept, m)
			}
		}
		modes = kept
	}
	// two root blocks indented with DIFFERENT characters (one space per level / one TAB per level),
	// and in the second block one line indented with the first block's character: whatever one
	// thinks of mixing styles across blocks, this document must be rejected
	if len(f) >= 2 && f[0].Depth() >= 2 && f[len(f)-1].Depth() >= 2 {
		var sb strings.Builder
		for _, l := range gen.SpellLines(f[:len(f)-1], gen.Spelling{Unit: " ", Bullet: 0, FinalNL: true}) {
			sb.WriteString(l.Text + "\n")
		}
		last := gen.SpellLines(model.Forest{f[len(f)-1]}, gen.Spelling{Unit: "\t", Bullet: 0, FinalNL: true})
		// the altered line is a depth-2 line AFTER the block's first indented line (which is the
		// one that establishes the block's TAB indentation)
		done, seenIndented := false, false
		for _, l := range last {
			t := l.Text
			if !done && seenIndented && l.Depth == 2 {
				t = " " + strings.TrimLeft(t, "\t") // a space where this block uses a TAB
				done = true
			}
			if l.Depth >= 2 {
				seenIndented = true
			}
			sb.WriteString(t + "\n")
		}
		mdoc := sb.String()
		for _, m := range modes {
			if !done {
				break
			}
			if m.name == "toml" {
				continue
			}
			cs.Entry = modeLabel(m)
			cs.Tags = []string{"M7.other-blocks-indent-char", map[bool]string{true: "massive", false: "simple"}[m.massive]}
			if m.massive {
				cs.SetDoc(mdoc)
				c.Rejournal(cs)
			}
			_, _, o := m.run(mdoc, context.Background())
			c.Eval(gen.HashString(fkey+"\x00m7"+cs.Entry), true)
			c.Count("injected.M7", 1)
			if o.Panic != nil {
				c.Violation(cs, "panic", PanicSig(o.Panic, o.Stack), map[string]any{"doc": mdoc})
			} else if o.Err == nil {
				c.Violation(cs, "malformed.accepted", "M7.other-blocks-indent-char", map[string]any{"doc": mdoc})
			}
		}
	}
	// a heading-root spelling of the same forest is rendered first (well-formed: must be accepted
	// and complete); it also leaves "# root" parser state behind for the bullet-root documents
	// that follow, which must not be affected by it
	if gen.CanHeading(f) {
		hsp := gen.Spelling{Unit: "  ", Bullet: 3, Heading: 1 + int(cs.Seed%3), FinalNL: true, Seed: cs.Seed}
		hdoc := gen.Spell(f, hsp)
		for _, m := range modes {
			if m.name == "toml" && len(f) != 1 {
				continue
			}
			cs.Entry = modeLabel(m)
			cs.Tags = []string{"wellformed", "heading-roots", map[bool]string{true: "massive", false: "simple"}[m.massive]}
			if m.massive {
				cs.SetDoc(hdoc)
				c.Rejournal(cs)
			}
			out, rows, o := m.run(hdoc, context.Background())
			c.Eval(gen.HashString(fkey+"\x00heading"+cs.Entry), merged.Size() >= 2)
			det := map[string]any{"doc": hdoc, "spelling": hsp.String(), "err": errStr(o.Err), "out": trunc(string(out), 1500), "forest": fkey}
			switch {
			case o.Panic != nil:
				c.Violation(cs, "panic", PanicSig(o.Panic, o.Stack), det)
			case o.Err != nil:
				c.Violation(cs, "wellformed.rejected", "", det)
			default:
				if ok, why := c02Complete(m, merged, out, rows); !ok {
					det["why"] = why
					c.Violation(cs, "accepted.incomplete", "", det)
				}
			}
		}
	}
	for si, sp := range spellings {
		sp.Seed = cs.Seed
		lines := gen.SpellLines(f, sp)
		doc := gen.Join(lines, sp.CRLF, sp.FinalNL)
		// (d) well-formed documents are accepted and complete in every mode
		for _, m := range modes {
			if m.name == "toml" && len(f) != 1 {
				continue
			}
			if cs.Kind != "exhaustive" && m.massive && r.Chance(1, 2) {
				continue
			}
			cs.Entry = modeLabel(m)
			cs.Tags = []string{"wellformed", map[bool]string{true: "massive", false: "simple"}[m.massive]}
			if m.massive {
				cs.SetDoc(doc)
				c.Rejournal(cs)
			}
			out, rows, o := m.run(doc, context.Background())
			c.Eval(gen.HashString(fkey+"\x00wf"+strconv.Itoa(si)+cs.Entry), merged.Size() >= 2)
			c.SetAdd("entries", cs.Entry)
			det := map[string]any{"doc": doc, "spelling": sp.String(), "err": errStr(o.Err), "out": trunc(string(out), 1500), "forest": fkey}
			switch {
			case o.Panic != nil:
				det["stack"] = o.Stack
				c.Violation(cs, "panic", PanicSig(o.Panic, o.Stack), det)
			case o.Err != nil:
				c.Violation(cs, "wellformed.rejected", "", det)
			default:
				if ok, why := c02Complete(m, merged, out, rows); !ok {
					det["why"] = why
					c.Violation(cs, "accepted.incomplete", "", det)
				}
			}
		}
		// (e) nil means everything reached the output: with a writer that fails at its k-th write a
		// nil return is a silent loss (text paths; the encoders are C14's business)
		for _, m := range modes {
			if m.name != "text" && m.name != "text.noiter" && m.name != "dryrun" {
				continue
			}
			for _, k := range []int{0, 1} {
				w := mon.NewRecWriter()
				w.FailAt = k
				var opts []gtree.Option
				if m.name == "text.noiter" {
					opts = append(opts, gtree.WithNoUseIterOfSimpleOutput())
				}
				if m.name == "dryrun" {
					opts = append(opts, gtree.WithDryRun())
				}
				if m.massive {
					opts = append(opts, gtree.WithMassive(context.Background()))
				}
				cs.Entry = modeLabel(m)
				cs.Tags = []string{"wellformed", "failing-writer", map[bool]string{true: "massive", false: "simple"}[m.massive]}
				if m.massive {
					cs.SetDoc(doc)
					c.Rejournal(cs)
				}
				o := Guard(func() error { return gtree.OutputFromMarkdown(w, MDReader(doc), opts...) })
				_, failed, _ := w.Stats()
				c.Eval(gen.HashString(fkey+"\x00fw"+strconv.Itoa(si*10+k)+cs.Entry), failed > 0)
				if o.Panic != nil {
					c.Violation(cs, "panic", PanicSig(o.Panic, o.Stack), map[string]any{"doc": doc})
				} else if failed > 0 && o.Err == nil {
					c.Violation(cs, "accepted.incomplete", "failing-writer", map[string]any{"doc": doc, "fail_at_write": k, "accepted": trunc(string(w.Bytes()), 400)})
				}
			}
		}
		// (a)(b) every single-line injection is rejected
		positions := make([]int, 0, len(lines))
		for i := range lines {
			if lines[i].Node >= 0 {
				positions = append(positions, i)
			}
		}
		if cs.Kind != "exhaustive" {
			positions = []int{positions[r.Intn(len(positions))], positions[r.Intn(len(positions))], positions[0]}
		}
		for _, pos := range positions {
			for _, class := range gen.AllClasses {
				nVariants := 2
				if class == gen.M2EmptyText && lines[pos].Depth == 1 {
					nVariants = 4 // also "#" and "## " (a heading without text)
				}
				for variant := 0; variant < nVariants; variant++ {
					inj, row, ok := gen.Inject(lines, sp, class, pos, variant)
					if !ok {
						continue
					}
					bad := gen.Join(inj, sp.CRLF, sp.FinalNL)
					c.Count("injected."+class, 1)
					// all simple modes for a rotating subset, text modes always
					for mi, m := range modes {
						always := m.name == "text" || m.name == "text.noiter"
						if !always && (pos+variant+mi+si)%4 != 0 {
							continue
						}
						if m.name == "toml" {
							continue
						}
						cs.Entry = modeLabel(m)
						cs.Tags = []string{class, map[bool]string{true: "massive", false: "simple"}[m.massive]}
						cs.N = []int{si, pos, variant}
						if m.massive {
							cs.SetDoc(bad)
							c.Rejournal(cs)
						}
						out, _, o := m.run(bad, context.Background())
						c.Eval(gen.HashString(fkey+"\x00"+class+strconv.Itoa(si*1000+pos*10+variant)+cs.Entry), true)
						det := map[string]any{"doc": bad, "class": class, "row": row, "line": pos, "spelling": sp.String(), "err": errStr(o.Err), "out": trunc(string(out), 1500)}
						switch {
						case o.Panic != nil:
							det["stack"] = o.Stack
							c.Violation(cs, "panic", PanicSig(o.Panic, o.Stack), det)
						case o.Err == nil:
							c.Violation(cs, "malformed.accepted", class, det)
						default:
							needRow := class == gen.M1NoBullet || class == gen.M4MixedIndent || (class == gen.M3NotMultiple && !m.massive)
							wantRow := strings.TrimSuffix(row, "\r")
							if needRow && !strings.Contains(o.Err.Error(), wantRow) {
								c.Violation(cs, "format-error.row-missing", class, det)
							}
						}
						if c.WantSample(class) {
							c.Sample(class, map[string]any{"doc": bad, "row": row, "mode": cs.Entry, "err": errStr(o.Err)})
						}
					}
				}
			}
		}
	}
	cs.Entry, cs.Tags, cs.N = "", nil, nil
	cs.Doc, cs.DocText = nil, ""
}

// evalC02Long: a document with one over-long line at position first / second root / last child /
// after leading blank lines, in every mode: the call must fail, or render everything.
func evalC02Long(c *Ctx, cs *Case) {
	n, pos := cs.N[0], cs.N[1]
	long := strings.Repeat("x", n-2)
	var f model.Forest
	var doc string
	switch pos {
	case 0:
		f = model.Forest{{Name: long, Kids: []*model.Node{{Name: "kid"}}}, {Name: "b"}}
		doc = "- " + long + "\n  - kid\n- b\n"
	case 1:
		f = model.Forest{{Name: "a", Kids: []*model.Node{{Name: "k"}}}, {Name: long}, {Name: "c"}}
		doc = "- a\n  - k\n- " + long + "\n- c\n"
	case 2:
		f = model.Forest{{Name: "a", Kids: []*model.Node{{Name: "k"}, {Name: long}}}}
		doc = "- a\n  - k\n  - " + long
	default:
		f = model.Forest{{Name: long}, {Name: "z"}}
		doc = "\n \n- " + long + "\n- z\n"
	}
	for _, m := range c02Modes() {
		if m.name == "toml" || m.name == "dryrun" {
			continue
		}
		cs.Entry = modeLabel(m)
		cs.Tags = []string{"long-line", map[bool]string{true: "massive", false: "simple"}[m.massive]}
		if m.massive {
			c.Rejournal(cs)
		}
		out, rows, o := m.run(doc, context.Background())
		c.Eval(gen.HashString("long"+strconv.Itoa(n*10+pos)+cs.Entry), true)
		c.Count("long_line_cases", 1)
		det := map[string]any{"line_bytes": n, "position": pos, "err": errStr(o.Err), "out_bytes": len(out)}
		switch {
		case o.Panic != nil:
			c.Violation(cs, "panic", PanicSig(o.Panic, o.Stack), det)
		case o.Err == nil:
			if ok, why := c02Complete(m, f, out, rows); !ok {
				det["why"] = why
				c.Violation(cs, "accepted.incomplete", "long-line", det)
			}
		case n < 60000:
			// far below the scanner's 64 KiB limit: a well-formed document, it must be accepted
			c.Violation(cs, "wellformed.rejected", "long-line", det)
		}
	}
	cs.Entry, cs.Tags = "", nil
}
