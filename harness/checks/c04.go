package checks

import (
	"context"
	"strconv"
	"unicode/utf8"

	"github.com/ddddddO/gtree"
	"github.com/fatih/color"

	"gtverif/gen"
	"gtverif/model"
	"gtverif/mon"
)

// C04 — JSON / YAML / TOML outputs are well-formed and isomorphic to the tree. Oracle: decode
// with encoding/json, yaml.v3, go-toml/v2 and compare with the merged model forest.

func init() {
	Register(&Check{Prop: "C04", Run: runC04, Replay: func(c *Ctx, cs *Case) { evalC04(c, cs) }})
}

var c04Classes = []int{gen.ClassPlain, gen.ClassQuoting, gen.ClassUnicode, gen.ClassControl, gen.ClassBullet, gen.ClassBlankEdge, gen.ClassPathHostile, gen.ClassCase}

func runC04(c *Ctx) bool {
	nMax := c.Pick(5, 7)
	gen.ForEachLabeled(nMax, 2, []string{"a", "b"}, func(i int, f model.Forest) {
		if !c.Mine(i) {
			return
		}
		cs := &Case{Idx: i, Kind: "exhaustive"}
		cs.Depths, cs.Names = gen.Depths(f)
		c.Journal(cs)
		evalC04(c, cs)
		c.Progress(false)
	})
	base := gen.CountLabeled(nMax, 2)
	// every code point region at the start, middle and end of a name
	cps := []rune{}
	for r := rune(0); r < 0x300; r++ {
		cps = append(cps, r)
	}
	for _, r := range []rune{0x2028, 0x2029, 0xfeff, 0xfffd, 0xfffe, 0xffff, 0x10000, 0x1f600, 0x10ffff, 0x200b, 0x202e, 0x3000, 0xd7ff, 0xe000} {
		cps = append(cps, r)
	}
	idx := base
	for _, cp := range cps {
		if cp == '\n' {
			continue
		}
		i := idx
		idx++
		if !c.Mine(i) {
			continue
		}
		s := string(cp)
		names := []string{"r", s + "x", "x" + s + "y", "x" + s, s}
		cs := &Case{Idx: i, Kind: "codepoint", Depths: []int{1, 2, 2, 3, 2}, Names: names, N: []int{int(cp)}}
		c.Journal(cs)
		evalC04(c, cs)
		c.Progress(false)
	}
	nRand := c.Pick(10000, 200000)
	for j := 0; j < nRand; j++ {
		i := idx
		idx++
		if !c.Mine(i) {
			continue
		}
		r := gen.New(c.Seed, 401, uint64(j))
		classes := c04Classes
		if r.Chance(1, 2) {
			classes = []int{gen.ClassPlain, c04Classes[r.Intn(len(c04Classes))]}
		}
		f := gen.RandForest(r, []int{5, 12, 40}[r.Intn(3)], r.Range(2, 9), classes, []int{0, 20}[r.Intn(2)])
		cs := &Case{Idx: i, Kind: "random", Seed: r.Uint64()}
		cs.Depths, cs.Names = gen.Depths(f)
		// the From-Root side can carry LF / CR names
		if r.Chance(1, 5) {
			cs.Kind = "random-lf"
			cs.Names[r.Intn(len(cs.Names))] = []string{"a\nb", "\n", "x\r", "\r\n", "a\n", "\nb: c", "line1\nline2\n"}[r.Intn(7)]
		}
		c.Journal(cs)
		evalC04(c, cs)
		c.Progress(false)
	}
	// wide parents around 32 / 64 / 128 / 256 / 1024 / 4096 children with repeated names, spines deeper than 64 / 128 / 1024 levels
	for _, w := range []int{31, 32, 33, 34, 63, 64, 65, 66, 127, 128, 129, 255, 256, 257, 1023, 1024, 1025, 1100, 4100, -66, -130, -1030, 0} {
		i := idx
		idx++
		if !c.Mine(i) {
			continue
		}
		cs := &Case{Idx: i, Kind: "wide-or-deep", Seed: uint64(i)}
		if w > 0 {
			cs.Depths, cs.Names = gen.WideDup(w, []int{0, w / 2, w - 2, w - 1})
		} else if w == 0 {
			cs.Depths, cs.Names = gen.LongDup()
		} else {
			cs.Depths, cs.Names = gen.DeepMixed(-w)
		}
		c.Journal(cs)
		evalC04(c, cs)
		c.Progress(false)
	}
	return true
}

func evalC04(c *Ctx, cs *Case) {
	f := gen.FromDepths(cs.Depths, cs.Names)
	for _, n := range cs.Names {
		if !utf8.ValidString(n) {
			return // the statement says Unicode names
		}
	}
	merged := model.Merge(f)
	fkey := f.String()
	nontrivial := merged.Size() >= 2
	cs.Tags = nil
	for _, n := range cs.Names {
		if len(n) > 0 && n[0] == '\n' {
			cs.AddTag("name-leading-lf")
		}
	}
	spellable := gen.CanSpell(f)
	var doc string
	if spellable {
		sp := gen.Canonical
		if cs.Seed != 0 {
			sp = gen.RandSpelling(gen.New(cs.Seed, 8))
			if !gen.CanHeading(f) {
				sp.Heading = 0
			}
		}
		doc = gen.Spell(f, sp)
	}
	check := func(entry, enc string, out []byte, o Outcome, want model.Forest) {
		cs.Entry = entry + "[" + enc + "]"
		c.Eval(gen.HashString(fkey+"\x00"+cs.Entry), nontrivial)
		c.SetAdd("entries", cs.Entry)
		det := map[string]any{"forest": fkey, "doc": doc, "out": trunc(string(out), 2000), "err": errStr(o.Err)}
		if len(cs.N) > 0 {
			det["codepoint"] = "U+" + strconv.FormatInt(int64(cs.N[0]), 16)
		}
		defer func() { cs.Entry = "" }()
		if o.Panic != nil {
			det["stack"] = o.Stack
			c.Violation(cs, "panic", PanicSig(o.Panic, o.Stack), det)
			return
		}
		if o.Err != nil {
			c.Violation(cs, "encode.error", enc, det)
			return
		}
		var got model.Forest
		var err error
		switch enc {
		case "json":
			got, err = DecodeJSONLines(out)
		case "yaml":
			got, err = DecodeYAMLDocs(out)
		case "toml":
			got, err = DecodeTOML(out)
		}
		if err != nil {
			det["decode_err"] = err.Error()
			c.Violation(cs, "decode.rejected", enc, det)
			return
		}
		if !model.Equal(got, want) {
			det["decoded"] = got.String()
			det["want"] = want.String()
			c.Violation(cs, "decode.differs", enc, det)
		}
	}
	encOpt := map[string]gtree.Option{"json": gtree.WithEncodeJSON(), "yaml": gtree.WithEncodeYAML(), "toml": gtree.WithEncodeTOML()}
	for _, enc := range []string{"json", "yaml", "toml"} {
		if enc == "toml" && len(f) != 1 {
			continue
		}
		if spellable {
			// a call whose writer fails (error / short write) comes first: whatever it leaves behind
			// must not show up in the output of the calls that follow
			for _, short := range []bool{false, true} {
				fw := mon.NewRecWriter()
				fw.FailAt, fw.Short = 0, short
				_ = Guard(func() error { return gtree.OutputFromMarkdown(fw, MDReader(doc), encOpt[enc]) })
				fr := mon.NewRecWriter()
				fr.FailAt, fr.Short = 0, short
				g0 := BuildRoot(f[0])
				_ = Guard(func() error { return gtree.OutputFromRoot(fr, g0, encOpt[enc]) })
			}
			c.Count("failed_calls_before", 4)
			o := OutputMD(doc, encOpt[enc])
			check("OutputFromMarkdown", enc, o.Out, o, merged)
			// the non-iterator code path with the same encoding
			no := OutputMD(doc, encOpt[enc], gtree.WithNoUseIterOfSimpleOutput())
			check("OutputFromMarkdown+NoIter", enc, no.Out, no, merged)
			// the deprecated aliases with the same option
			aw := mon.NewRecWriter()
			ao := Guard(func() error { return gtree.Output(aw, MDReader(doc), encOpt[enc]) })
			check("Output(alias)", enc, aw.Bytes(), ao, merged)
			pw := mon.NewRecWriter()
			pr := BuildRoot(f[0])
			po := Guard(func() error { return gtree.OutputProgrammably(pw, pr, encOpt[enc]) })
			check("OutputProgrammably(alias)", enc, pw.Bytes(), po, model.Merge(model.Forest{f[0]}))
		}
		// massive mode (several roots): same documents / lines, in any order of roots
		if spellable && len(f) >= 2 && enc != "toml" {
			cs.Entry = "OutputFromMarkdown[" + enc + ",massive]"
			// heading roots in massive mode are C10's business (known finding there): bullet roots here
			doc := gen.Spell(f, gen.Spelling{Unit: "  ", Bullet: 3, FinalNL: true, Seed: cs.Seed})
			cs.SetDoc(doc)
			c.Rejournal(cs)
			o := OutputMD(doc, encOpt[enc], gtree.WithMassive(context.Background()))
			c.Eval(gen.HashString(fkey+"\x00"+cs.Entry), nontrivial)
			c.SetAdd("entries", cs.Entry)
			det := map[string]any{"forest": fkey, "doc": doc, "out": trunc(string(o.Out), 2000), "err": errStr(o.Err)}
			var got model.Forest
			var derr error
			if enc == "json" {
				got, derr = DecodeJSONLines(o.Out)
			} else {
				got, derr = DecodeYAMLDocs(o.Out)
			}
			switch {
			case o.Panic != nil:
				c.Violation(cs, "panic", PanicSig(o.Panic, o.Stack), det)
			case o.Err != nil:
				c.Violation(cs, "encode.error", enc, det)
			case derr != nil:
				det["decode_err"] = derr.Error()
				c.Violation(cs, "decode.rejected", enc, det)
			default:
				var a, b []string
				for _, r := range got {
					a = append(a, model.Forest{r}.String())
				}
				for _, r := range merged {
					b = append(b, model.Forest{r}.String())
				}
				if !sameMultiset(a, b) {
					det["decoded"] = got.String()
					c.Violation(cs, "decode.differs", enc, det)
				}
			}
			cs.Entry, cs.Doc, cs.DocText = "", nil, ""
		}
		// From-Root: one call per root
		for ri, root := range f {
			if ri > 0 && enc == "toml" {
				break
			}
			w := mon.NewRecWriter()
			g := BuildRoot(root)
			if (cs.Idx+ri)%4 == 0 {
				// the tree has been shown before, as on a terminal: a coloured dry-run report and a text
				// output; nothing of that presentation may end up in the encoded values
				oldNC := color.NoColor
				color.NoColor = false
				captureColorOutput(func() { _ = Guard(func() error { return gtree.MkdirFromRoot(g, gtree.WithDryRun()) }) })
				_ = Guard(func() error { return gtree.OutputFromRoot(mon.NewRecWriter(), g, BranchOptions(3)...) })
				color.NoColor = oldNC
				c.Count("encoded_after_a_coloured_dry_run_of_the_same_tree", 1)
			}
			leadLF := false
			for _, t := range cs.Tags {
				if t == "name-leading-lf" {
					leadLF = true // (YAML of such a name is known finding KF-C04-1: one call is enough)
				}
			}
			if (cs.Idx+ri)%3 == 1 && !(enc == "yaml" && leadLF) {
				// the same tree object has been encoded before, in massive mode: that call gets what the
				// tree holds, and so does every later one (the library does not use up its argument)
				mw := mon.NewRecWriter()
				mo := Guard(func() error { return gtree.OutputFromRoot(mw, g, encOpt[enc], gtree.WithMassive(context.Background())) })
				check("OutputFromRoot[massive, first use of the tree]", enc, mw.Bytes(), mo, model.Merge(model.Forest{root}))
				c.Count("trees_encoded_again_after_a_massive_encode", 1)
			}
			o := Guard(func() error { return gtree.OutputFromRoot(w, g, encOpt[enc]) })
			check("OutputFromRoot", enc, w.Bytes(), o, model.Merge(model.Forest{root}))
		}
	}
	if nontrivial && c.WantSample(cs.Kind) && spellable {
		o := OutputMD(doc, gtree.WithEncodeYAML())
		c.Sample(cs.Kind, map[string]any{"forest": fkey, "doc": doc, "yaml": trunc(string(o.Out), 600)})
	}
}
