package checks

import (
	"bytes"
	"encoding/json"
	"errors"
	"fmt"
	"io"
	"sync"

	"github.com/ddddddO/gtree"
	toml "github.com/pelletier/go-toml/v2"
	"gopkg.in/yaml.v3"

	"gtverif/model"
)

// RowRec collects walk visits; safe for concurrent callbacks (massive mode).
type RowRec struct {
	mu   sync.Mutex
	Rows []model.Row
	// FailAt >= 0: the callback returns Err at that visit index
	FailAt int
	Err    error
	Calls  int
	// kept holds the node handed to each visit: a consumer may keep what it was given, so once the
	// walk is over every kept node must still describe the node of ITS visit
	kept []*gtree.WalkerNode
}

func rowOf(wn *gtree.WalkerNode) model.Row {
	return model.Row{Row: wn.Row(), Branch: wn.Branch(), Name: wn.Name(), Level: int(wn.Level()), Path: wn.Path(), HasChild: wn.HasChild()}
}

// Retained re-reads every kept node (call it right after the walk, before anything else touches
// the tree) and returns "" when each still shows what it showed at its visit.
func (r *RowRec) Retained() string {
	r.mu.Lock()
	defer r.mu.Unlock()
	for i, wn := range r.kept {
		if i < len(r.Rows) && wn != nil && rowOf(wn) != r.Rows[i] {
			return fmt.Sprintf("the node given to visit %d showed %q / path %q then and shows %q / path %q after the walk", i, r.Rows[i].Row, r.Rows[i].Path, wn.Row(), wn.Path())
		}
	}
	return ""
}

// Seal folds a retained-node mismatch into the outcome (reported like a crash of the call).
func (r *RowRec) Seal(o *Outcome) {
	if o.Panic == nil && o.Err == nil {
		if s := r.Retained(); s != "" {
			o.Panic = "walker node changed after its visit: " + s
		}
	}
}

func NewRowRec() *RowRec { return &RowRec{FailAt: -1} }

func (r *RowRec) Callback(wn *gtree.WalkerNode) error {
	r.mu.Lock()
	defer r.mu.Unlock()
	i := r.Calls
	r.Calls++
	r.Rows = append(r.Rows, rowOf(wn))
	r.kept = append(r.kept, wn)
	if r.FailAt >= 0 && i == r.FailAt {
		return r.Err
	}
	return nil
}

// WalkMD runs WalkFromMarkdown and returns the visited rows.
func WalkMD(doc string, opts ...gtree.Option) ([]model.Row, Outcome) {
	rec := NewRowRec()
	o := Guard(func() error { return gtree.WalkFromMarkdown(MDReader(doc), rec.Callback, opts...) })
	rec.Seal(&o)
	// a massive-mode walk that ends in an error returns while a worker may still be inside the
	// callback: take the recorder's own lock for the copy
	rec.mu.Lock()
	rows := append([]model.Row(nil), rec.Rows...)
	rec.mu.Unlock()
	return rows, o
}

type jrec struct {
	Value    *string `json:"value"`
	Children []*jrec `json:"children"`
}

func (j *jrec) node() (*model.Node, error) {
	if j == nil || j.Value == nil {
		return nil, errors.New("record without value")
	}
	n := &model.Node{Name: *j.Value}
	for _, c := range j.Children {
		k, err := c.node()
		if err != nil {
			return nil, err
		}
		n.Kids = append(n.Kids, k)
	}
	return n, nil
}

// DecodeJSONLines: one complete JSON value per non-empty line.
func DecodeJSONLines(out []byte) (model.Forest, error) {
	var f model.Forest
	if len(out) > 0 && out[len(out)-1] != '\n' {
		return nil, errors.New("output does not end with a newline")
	}
	for i, line := range bytes.Split(out, []byte("\n")) {
		if len(line) == 0 {
			continue
		}
		dec := json.NewDecoder(bytes.NewReader(line))
		dec.DisallowUnknownFields()
		var r jrec
		if err := dec.Decode(&r); err != nil {
			return nil, fmt.Errorf("line %d: %v", i+1, err)
		}
		if dec.More() {
			return nil, fmt.Errorf("line %d: more than one value", i+1)
		}
		n, err := r.node()
		if err != nil {
			return nil, fmt.Errorf("line %d: %v", i+1, err)
		}
		f = append(f, n)
	}
	return f, nil
}

type yrec struct {
	Value    *string `yaml:"value"`
	Children []*yrec `yaml:"children"`
}

func (j *yrec) node() (*model.Node, error) {
	if j == nil || j.Value == nil {
		return nil, errors.New("record without value")
	}
	n := &model.Node{Name: *j.Value}
	for _, c := range j.Children {
		k, err := c.node()
		if err != nil {
			return nil, err
		}
		n.Kids = append(n.Kids, k)
	}
	return n, nil
}

// checkYAMLStr requires every "value" scalar to be a string scalar (so null/true/1e3 names
// were quoted).
func checkYAMLStr(n *yaml.Node) error {
	switch n.Kind {
	case yaml.DocumentNode, yaml.SequenceNode:
		for _, c := range n.Content {
			if err := checkYAMLStr(c); err != nil {
				return err
			}
		}
	case yaml.MappingNode:
		for i := 0; i+1 < len(n.Content); i += 2 {
			k, v := n.Content[i], n.Content[i+1]
			if k.Value == "value" {
				// "<<" is emitted plain by yaml.v3 and resolved as !!merge by its own decoder, which
				// still yields the string "<<" for a string field: accepted (a yaml.v3 quirk, not gtree's)
				if v.Kind != yaml.ScalarNode || (v.ShortTag() != "!!str" && !(v.ShortTag() == "!!merge" && v.Value == "<<")) {
					return fmt.Errorf("value %q is not a string scalar (tag %s)", v.Value, v.ShortTag())
				}
			} else if err := checkYAMLStr(v); err != nil {
				return err
			}
		}
	}
	return nil
}

// DecodeYAMLDocs: one YAML document per root.
func DecodeYAMLDocs(out []byte) (model.Forest, error) {
	var f model.Forest
	dec := yaml.NewDecoder(bytes.NewReader(out))
	dec.KnownFields(true)
	for i := 0; ; i++ {
		var node yaml.Node
		err := dec.Decode(&node)
		if err == io.EOF {
			break
		}
		if err != nil {
			return nil, fmt.Errorf("document %d: %v", i+1, err)
		}
		if err := checkYAMLStr(&node); err != nil {
			return nil, fmt.Errorf("document %d: %v", i+1, err)
		}
		var r yrec
		if err := node.Decode(&r); err != nil {
			return nil, fmt.Errorf("document %d: %v", i+1, err)
		}
		n, err := r.node()
		if err != nil {
			return nil, fmt.Errorf("document %d: %v", i+1, err)
		}
		f = append(f, n)
	}
	return f, nil
}

type trec struct {
	Value    *string `toml:"value"`
	Children []*trec `toml:"children"`
}

func (j *trec) node() (*model.Node, error) {
	if j == nil || j.Value == nil {
		return nil, errors.New("record without value")
	}
	n := &model.Node{Name: *j.Value}
	for _, c := range j.Children {
		k, err := c.node()
		if err != nil {
			return nil, err
		}
		n.Kids = append(n.Kids, k)
	}
	return n, nil
}

// DecodeTOML: a single document (single root).
func DecodeTOML(out []byte) (model.Forest, error) {
	var r trec
	dec := toml.NewDecoder(bytes.NewReader(out))
	dec.DisallowUnknownFields()
	if err := dec.Decode(&r); err != nil {
		return nil, err
	}
	n, err := r.node()
	if err != nil {
		return nil, err
	}
	return model.Forest{n}, nil
}

// RowsEqual compares visit sequences.
func RowsEqual(a, b []model.Row) bool {
	if len(a) != len(b) {
		return false
	}
	for i := range a {
		if a[i] != b[i] {
			return false
		}
	}
	return true
}
