package checks

import (
	"strconv"
	"bufio"
	"bytes"
	"encoding/json"
	"fmt"
	"io"
	"os/exec"
	"path/filepath"
	"strings"

	"gtverif/gen"
	"gtverif/model"
)

// C17 — the tinywasm build renders the same trees as the default build. Differential oracle:
// one tiny driver (cmd/gtwasmdrv) compiled twice from the same source, with the default tags and
// with -tags tinywasm, is fed the same case stream; accept/reject must agree and, when both
// accept, the bytes must be identical.

func init() {
	Register(&Check{Prop: "C17", Run: runC17, Replay: func(c *Ctx, cs *Case) {
		d, err := startC17(c)
		if err != nil {
			c.Inconclusive(cs, err.Error())
			return
		}
		defer d.stop()
		evalC17(c, cs, d)
	}})
}

type wcase struct {
	Doc    []byte   `json:"doc"`
	Mode   string   `json:"mode"`
	Branch []string `json:"branch,omitempty"`
	Ext    []string `json:"ext,omitempty"`
	HasExt bool     `json:"has_ext,omitempty"`
	Poison int      `json:"poison,omitempty"`
	Par    int      `json:"par,omitempty"`
}

type wres struct {
	Err   bool   `json:"err"`
	Panic string `json:"panic,omitempty"`
	Out   []byte `json:"out"`
}

type drv struct {
	cmd *exec.Cmd
	in  io.WriteCloser
	out *bufio.Reader
}

type c17Drivers struct{ def, wasm *drv }

func startDrv(path string) (*drv, error) {
	cmd := exec.Command(path)
	in, err := cmd.StdinPipe()
	if err != nil {
		return nil, err
	}
	out, err := cmd.StdoutPipe()
	if err != nil {
		return nil, err
	}
	if err := cmd.Start(); err != nil {
		return nil, err
	}
	return &drv{cmd: cmd, in: in, out: bufio.NewReaderSize(out, 1<<20)}, nil
}

func startC17(c *Ctx) (*c17Drivers, error) {
	a, err := startDrv(filepath.Join(c.BinDir, "gtwasmdrv.default"))
	if err != nil {
		return nil, err
	}
	b, err := startDrv(filepath.Join(c.BinDir, "gtwasmdrv.tinywasm"))
	if err != nil {
		return nil, err
	}
	return &c17Drivers{a, b}, nil
}

func (d *c17Drivers) stop() {
	for _, x := range []*drv{d.def, d.wasm} {
		x.in.Close()
		x.cmd.Wait()
	}
}

func (d *drv) ask(line []byte) (wres, error) {
	var r wres
	if _, err := d.in.Write(line); err != nil {
		return r, err
	}
	resp, err := d.out.ReadBytes('\n')
	if err != nil {
		return r, fmt.Errorf("driver died: %v", err)
	}
	if err := json.Unmarshal(resp, &r); err != nil {
		return r, err
	}
	return r, nil
}

type c17Mode struct {
	name   string
	mode   string
	branch int
	ext    int // index into ExtLists, -1 none
}

var c17Modes = []c17Mode{
	{"text", "text", 0, -1},
	{"text.branch1", "text", 1, -1},
	{"text.branch3", "text", 3, -1},
	{"text.branch4", "text", 4, -1},
	{"text.empty-branch", "text", 2, -1},
	{"json", "json", 0, -1},
	{"dry", "dry", 0, -1},
	{"dry.ext1", "dry", 0, 1},
	{"dry.ext2", "dry", 0, 2},
	{"dry.ext7", "dry", 3, 7},
}

func runC17(c *Ctx) bool {
	d, err := startC17(c)
	if err != nil {
		cs := &Case{Idx: 0, Kind: "start"}
		c.Inconclusive(cs, "cannot start the two driver builds: "+err.Error())
		return false
	}
	defer d.stop()
	idx := 0
	emit := func(kind, doc string) {
		i := idx
		idx++
		if !c.Mine(i) {
			return
		}
		cs := &Case{Idx: i, Kind: kind}
		cs.SetDoc(doc)
		c.Journal(cs)
		evalC17(c, cs, d)
		c.Progress(false)
	}
	for _, dg := range gen.Degenerate {
		emit("degenerate", dg)
	}
	// lines around bufio.Scanner's 64 KiB limit, first / in the middle / last
	for _, n := range []int{65533, 65534, 65535, 65536, 70000} {
		long := "- " + strings.Repeat("x", n-2)
		emit("size-extreme", long+"\n")
		emit("size-extreme", "- a\n  - b\n"+long+"\n- c\n")
		emit("size-extreme", "- a\n  - b\n  "+long)
		emit("size-extreme", "\n\n"+long+"\n  - kid\n")
		// the same boundary with CRLF line ends (the carriage return counts for the scanner's limit)
		emit("size-extreme", long+"\r\n")
		emit("size-extreme", "- a\r\n  - b\r\n"+long+"\r\n- c\r\n")
		emit("size-extreme", long[:len(long)-1]+"\r\n")
	}
	// nesting deeper than 1024 levels (every line far below the scanner limit)
	for _, depth := range []int{1030, 1100}[:c.Pick(1, 2)] {
		var sb strings.Builder
		for d := 0; d < depth; d++ {
			sb.WriteString(strings.Repeat(" ", d) + "- n" + strconv.Itoa(d%10) + "\n")
		}
		emit("deep-chain", sb.String())
	}
	nMax := c.Pick(5, 7)
	gen.ForEachLabeled(nMax, 2, ExtAlphabet, func(i int, f model.Forest) {
		sps := gen.SixSpellings(uint64(i))
		if c.Quick() {
			sps = []gen.Spelling{sps[i%6], sps[(i+3)%6]}
		}
		for _, sp := range sps {
			emit("wellformed", gen.Spell(f, sp))
		}
	})
	// malformed: single-line injections
	gen.ForEachLabeled(c.Pick(4, 5), 2, []string{"a", "b"}, func(i int, f model.Forest) {
		sp := c02Spellings[i%len(c02Spellings)]
		sp.Seed = uint64(i)
		lines := gen.SpellLines(f, sp)
		for pos := range lines {
			for _, class := range gen.AllClasses {
				if inj, _, ok := gen.Inject(lines, sp, class, pos, i%2); ok {
					emit("malformed."+class, gen.Join(inj, sp.CRLF, sp.FinalNL))
				}
			}
		}
	})
	nMut := c.Pick(6000, 150000)
	for j := 0; j < nMut; j++ {
		r := gen.New(c.Seed, 1701, uint64(j))
		f := gen.RandForest(r, []int{4, 10, 30}[r.Intn(3)], r.Range(2, 8), allNameClasses, 15)
		doc := gen.Spell(f, gen.RandSpelling(r))
		if r.Chance(1, 2) {
			doc = gen.MutateDoc(r, doc)
			emit("mutated", doc)
		} else {
			emit("random-wellformed", doc)
		}
	}
	nRaw := c.Pick(1500, 40000)
	for j := 0; j < nRaw; j++ {
		emit("raw", gen.RawBytes(gen.New(c.Seed, 1702, uint64(j))))
	}
	return true
}

func evalC17(c *Ctx, cs *Case, d *c17Drivers) {
	doc := cs.Doc
	for _, m := range c17Modes {
		if cs.Kind == "deep-chain" && m.name != "json" && (c.Quick() || (m.name != "text" && m.name != "dry")) {
			continue // rendering text is quadratic in the depth: JSON in the quick tier, one mode of each kind in the thorough tier
		}
		wc := wcase{Doc: doc, Mode: m.mode}
		if m.branch != 0 {
			b := BranchTuples[m.branch]
			wc.Branch = []string{b.MidConn, b.MidCont, b.LastConn, b.LastCont}
		}
		if m.ext >= 0 {
			wc.Ext, wc.HasExt = ExtLists[m.ext], true
		}
		// every third request is preceded, inside both drivers, by the same call with a failing writer
		if k := int(gen.HashString(string(doc)+m.name) % 9); k < 3 {
			wc.Poison = k + 1
			c.Count("preceded_by_a_failed_writer_call", 1)
		}
		if k := int(gen.HashString(m.name+string(doc)) % 32); k == 0 && len(doc) < 20000 {
			// one request in 32 is additionally made 4 x 25 times from four goroutines at once inside each driver
			wc.Par = 4
			c.Count("made_four_times_concurrently", 1)
		}
		line, _ := json.Marshal(wc)
		line = append(line, '\n')
		ra, ea := d.def.ask(line)
		rb, eb := d.wasm.ask(line)
		if ea != nil || eb != nil {
			c.Inconclusive(cs, fmt.Sprintf("driver I/O: %v / %v", ea, eb))
			c.Recycle()
		}
		cs.Entry = "Output[" + m.name + "]"
		c.Eval(gen.HashString(string(doc)+"\x00"+m.name), len(doc) > 0)
		c.SetAdd("modes", m.name)
		c.Count("kind."+cs.Kind, 1)
		if !ra.Err && !rb.Err && ra.Panic == "" && rb.Panic == "" {
			c.Count("both_accept", 1)
		} else if ra.Err && rb.Err {
			c.Count("both_reject", 1)
		}
		det := map[string]any{"doc": trunc(string(doc), 800), "mode": m.name, "default": map[string]any{"err": ra.Err, "panic": ra.Panic, "out": trunc(string(ra.Out), 600)},
			"tinywasm": map[string]any{"err": rb.Err, "panic": rb.Panic, "out": trunc(string(rb.Out), 600)}}
		switch {
		case ra.Panic != "" || rb.Panic != "":
			which := "default"
			if rb.Panic != "" {
				which = "tinywasm"
			}
			c.Violation(cs, "panic", which+": "+trunc(ra.Panic+rb.Panic, 80), det)
		case ra.Err != rb.Err:
			c.Violation(cs, "builds.accept-reject-differs", m.mode, det)
		case !ra.Err && !bytes.Equal(ra.Out, rb.Out):
			det["first_diff"] = firstDiff(string(ra.Out), string(rb.Out))
			c.Violation(cs, "builds.bytes-differ", m.mode, det)
		}
		if c.WantSample(cs.Kind) && m.name == "dry.ext1" {
			c.Sample(cs.Kind, map[string]any{"doc": trunc(string(doc), 300), "mode": m.name, "default_err": ra.Err, "tinywasm_err": rb.Err, "out": trunc(string(ra.Out), 300)})
		}
	}
	cs.Entry = ""
}
