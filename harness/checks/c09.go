package checks

import (
	"bytes"
	"context"
	"errors"
	"path/filepath"
	"regexp"
	"runtime"
	"sort"
	"strconv"
	"strings"

	"github.com/ddddddO/gtree"
	"github.com/fatih/color"

	"gtverif/gen"
	"gtverif/model"
	"gtverif/mon"
)

// C09 — dry run touches nothing and predicts the real run. Oracles: jail conservation under
// dry-run through every entry point; the report equals the plain output followed per root by the
// counts of what a real Mkdir creates (counted from a real Mkdir's snapshot delta in a second
// jail, and from the model); dry-run rejects iff the real run rejects for its names.

func init() {
	Register(&Check{Prop: "C09", Run: runC09, Replay: func(c *Ctx, cs *Case) { evalC09(c, cs) }})
}

func runC09(c *Ctx) bool {
	nMax := c.Pick(5, 6)
	gen.ForEachLabeled(nMax, 2, ExtAlphabet, func(i int, f model.Forest) {
		if !c.Mine(i) {
			return
		}
		gen.DistinctRoots(f)
		cs := &Case{Idx: i, Kind: "exhaustive", Seed: uint64(i)}
		cs.Depths, cs.Names = gen.Depths(f)
		c.Journal(cs)
		evalC09(c, cs)
		c.Progress(false)
	})
	base := gen.CountLabeled(nMax, 2)
	nRand := c.Pick(3000, 60000)
	for j := 0; j < nRand; j++ {
		idx := base + j
		if !c.Mine(idx) {
			continue
		}
		r := gen.New(c.Seed, 901, uint64(j))
		classes := []int{gen.ClassPlain, gen.ClassExt, gen.ClassUnicode, gen.ClassQuoting, gen.ClassBullet, gen.ClassCase}
		kind := "random"
		if r.Chance(1, 3) {
			classes = []int{gen.ClassPlain, gen.ClassExt, gen.ClassPathHostile}
			kind = "random-hostile"
		}
		f := gen.RandForest(r, []int{5, 12, 30}[r.Intn(3)], r.Range(2, 7), classes, []int{0, 20}[r.Intn(2)])
		if kind == "random" {
			c08Safe(f)
		} else {
			gen.DistinctRoots(f)
		}
		cs := &Case{Idx: idx, Kind: kind, Seed: r.Uint64()}
		cs.Depths, cs.Names = gen.Depths(f)
		c.Journal(cs)
		evalC09(c, cs)
		c.Progress(false)
	}
	return true
}

var c09Quiet = mon.NewLeakMonitor()

// nameReject: the real run rejected the tree, and not merely because a root path already
// exists (a root named "." always "exists"): that is a rejection because of its names.
func nameReject(err error) bool {
	return err != nil && !errors.Is(err, gtree.ErrExistPath)
}

// realCounts runs a real MkdirFromMarkdown in a fresh jail and counts, per root, the created
// directories and files.
func realCounts(c *Ctx, doc string, merged model.Forest, exts []string, hasExt bool) (perRoot map[string][2]int, err error, ok bool) {
	j, e := mon.NewJail(c.TmpDir, true)
	if e != nil {
		return nil, nil, false
	}
	defer j.Remove()
	o := mkdirCall(mkdirRoutes[0], doc, nil, fsOpts(j.Target, exts, hasExt, false, false, false))
	if o.Panic != nil {
		return nil, nil, false
	}
	if o.Err != nil {
		return nil, o.Err, true
	}
	snap, _ := mon.Snap(j.Target)
	perRoot = map[string][2]int{}
	for _, e := range snap {
		root := e.Path
		if i := strings.IndexByte(root, '/'); i >= 0 {
			root = root[:i]
		}
		v := perRoot[root]
		if e.Kind == "f" {
			v[1]++
		} else {
			v[0]++
		}
		perRoot[root] = v
	}
	return perRoot, nil, true
}

var sgrSeq = regexp.MustCompile("\x1b\\[[0-9;]*m")

func evalC09(c *Ctx, cs *Case) {
	f := gen.FromDepths(cs.Depths, cs.Names)
	merged := model.Merge(f)
	fkey := f.String()
	doc := gen.Spell(f, gen.Canonical)
	r := gen.New(cs.Seed, 99)
	hostile := cs.Kind == "random-hostile"
	extIdx := []int{int(cs.Seed % uint64(len(ExtLists))), int((cs.Seed + 3) % uint64(len(ExtLists)))}
	if !c.Quick() && cs.Kind == "exhaustive" {
		extIdx = allExt()
	}
	for _, ei := range extIdx {
		exts := ExtLists[ei]
		hasExt := ei != 0
		// the real run (second jail): accept/reject for names + counts
		realPer, realErr, realOK := realCounts(c, doc, merged, exts, hasExt)
		// branch strings for the reports of this extension list: default or a custom tuple
		bi := []int{0, 0, 3, 6}[(ei+int(cs.Seed%4))%4]
		bopts := BranchOptions(bi)
		wantReport := model.DryRunReport(merged, BranchTuples[bi], exts)
		wantBlocks := model.DryRunBlocks(merged, BranchTuples[bi], exts)
		// a third of the (non-hostile) cases run with colour switched on, as on a terminal: the
		// report with the colour sequences removed must be the same report
		colorOn := !hostile && (int(cs.Seed%3)+ei)%3 == 0
		oldNoColor := color.NoColor
		color.NoColor = !colorOn
		plain := func(b []byte) string {
			if !colorOn {
				return string(b)
			}
			if bytes.Contains(b, []byte("\x1b[")) {
				c.Count("reports_with_colour_sequences", 1)
			}
			return sgrSeq.ReplaceAllString(string(b), "")
		}
		if realOK && realErr == nil {
			// the model's counts must be what the real Mkdir created (two real code paths compared)
			for _, root := range merged {
				d, fl := model.Counts(root, exts)
				if got := realPer[root.Name]; got != [2]int{d, fl} {
					cs.Entry = "MkdirFromMarkdown[real]"
					c.Violation(cs, "counts.real-mkdir-differs-from-model", "", map[string]any{"forest": fkey, "root": root.Name, "real": got, "model": [2]int{d, fl}, "ext": exts})
					cs.Entry = ""
				}
			}
		}
		for _, massive := range []bool{false, true} {
			mode := map[bool]string{true: "massive", false: "simple"}[massive]
			// --- (a) Output + dry-run
			{
				j, err := mon.NewJail(c.TmpDir, true)
				if err != nil {
					continue
				}
				before := j.Snap()
				opts := append(fsOpts("", exts, hasExt, true, massive, false), bopts...)
				if (ei+int(cs.Seed%5))%5 == 2 {
					// a meaningless encode option next to the dry-run option must not change the report
					// (the order of options in the list means nothing: the encode option comes after the
					// dry-run option for half of these cases and before everything else for the others)
					enc := []gtree.Option{gtree.WithEncodeJSON(), gtree.WithEncodeYAML()}[ei%2]
					if (cs.Idx+ei)%2 == 0 {
						opts = append(opts, enc)
					} else {
						opts = append([]gtree.Option{enc}, opts...)
						c.Count("dry_runs_with_a_stray_encode_option.encode_first", 1)
					}
					c.Count("dry_runs_with_a_stray_encode_option", 1)
				}
				cs.Entry = "OutputFromMarkdown[dryrun," + mode + "]"
				cs.Tags = []string{mode}
				cs.Opt = map[string]string{"ext": strconv.Itoa(ei)}
				if massive {
					c.Rejournal(cs)
				}
				var o Outcome
				base := runtime.NumGoroutine()
				withCwd(j.Target, func() { o = OutputMD(doc, opts...) })
				if massive {
					c09Quiet.Quiesce(base)
				}
				diff := mon.Diff(before, j.Snap())
				j.Remove()
				c.Eval(gen.HashString(fkey+"\x00"+cs.Entry+strconv.Itoa(ei)), merged.Size() >= 2)
				c.SetAdd("entries", cs.Entry)
				det := map[string]any{"forest": fkey, "doc": doc, "ext": exts, "out": trunc(string(o.Out), 1500), "err": errStr(o.Err), "diff": diff}
				switch {
				case o.Panic != nil:
					c.Violation(cs, "panic", PanicSig(o.Panic, o.Stack), det)
				case len(diff) != 0:
					c.Violation(cs, "dryrun.fs-changed", "", det)
				case realOK && (o.Err == nil) != !nameReject(realErr):
					det["real_err"] = errStr(realErr)
					c.Violation(cs, "dryrun.accept-differs-from-real", "", det)
				case o.Err == nil && !hostile:
					ok := plain(o.Out) == wantReport
					if massive {
						ok = coverBlocks(plain(o.Out), wantBlocks)
					}
					if !ok {
						det["want"] = trunc(wantReport, 1500)
						c.Violation(cs, "dryrun.report-differs", "", det)
					}
				}
			}
			// --- (b) MkdirFromMarkdown + dry-run: must not touch the filesystem
			{
				j, err := mon.NewJail(c.TmpDir, true)
				if err != nil {
					continue
				}
				before := j.Snap()
				cs.Entry = "MkdirFromMarkdown[dryrun," + mode + "]"
				if massive {
					c.Rejournal(cs)
				}
				base := runtime.NumGoroutine()
				var o Outcome
				captureColorOutput(func() {
					o = mkdirCall(mkdirRoutes[0], doc, nil, fsOpts(j.Target, exts, hasExt, true, massive, false))
				})
				if massive {
					c09Quiet.Quiesce(base)
				}
				diff := mon.Diff(before, j.Snap())
				j.Remove()
				c.Eval(gen.HashString(fkey+"\x00"+cs.Entry+strconv.Itoa(ei)), merged.Size() >= 2)
				c.SetAdd("entries", cs.Entry)
				det := map[string]any{"forest": fkey, "doc": doc, "ext": exts, "err": errStr(o.Err), "diff": diff}
				switch {
				case o.Panic != nil:
					c.Violation(cs, "panic", PanicSig(o.Panic, o.Stack), det)
				case len(diff) != 0:
					c.Violation(cs, "dryrun.fs-changed", "", det)
				case realOK && (o.Err == nil) != !nameReject(realErr) && !errors.Is(o.Err, gtree.ErrExistPath):
					det["real_err"] = errStr(realErr)
					c.Violation(cs, "dryrun.accept-differs-from-real", "", det)
				}
			}
			// --- (c) MkdirFromRoot + dry-run, per root: report on color.Output
			for _, root := range f {
				j, err := mon.NewJail(c.TmpDir, true)
				if err != nil {
					continue
				}
				before := j.Snap()
				cs.Entry = "MkdirFromRoot[dryrun," + mode + "]"
				if massive {
					c.Rejournal(cs)
				}
				base := runtime.NumGoroutine()
				var o Outcome
				if (ei+len(root.Name)+int(cs.Seed%4))%4 == 0 {
					// before a quarter of the calls: the same dry run while the report's destination
					// refuses writes (what such a failed call leaves behind must not reach the next report)
					bad := mon.NewRecWriter()
					bad.FailAt, bad.Short = 0, true
					oldOut := color.Output
					color.Output = bad
					_ = mkdirCall(mkdirRoutes[1], "", root, append(fsOpts(j.Target, exts, hasExt, true, massive, false), bopts...))
					if massive {
						c09Quiet.Quiesce(base)
					}
					color.Output = oldOut
					c.Count("dry_runs_preceded_by_a_failed_report", 1)
				}
				rep := captureColorOutput(func() {
					// a third of the calls name a target directory that does not exist yet: a dry run must not create it
					tgt := j.Target
					if (ei+len(root.Name))%3 == 0 {
						tgt = j.Target + "/not-yet/there"
					}
					o = mkdirCall(mkdirRoutes[1], "", root, append(fsOpts(tgt, exts, hasExt, true, massive, false), bopts...))
					if massive {
						c09Quiet.Quiesce(base)
					}
				})
				diff := mon.Diff(before, j.Snap())
				j.Remove()
				// the real run of the same root in a fresh jail
				j2, err := mon.NewJail(c.TmpDir, true)
				if err != nil {
					continue
				}
				ro := mkdirCall(mkdirRoutes[1], "", root, fsOpts(j2.Target, exts, hasExt, false, false, false))
				j2.Remove()
				c.Eval(gen.HashString(fkey+"\x00"+cs.Entry+strconv.Itoa(ei)+root.Name), merged.Size() >= 2)
				c.SetAdd("entries", cs.Entry)
				mr := model.Merge(model.Forest{root})
				det := map[string]any{"forest": fkey, "root": root.Name, "ext": exts, "report": trunc(string(rep), 1500), "err": errStr(o.Err), "real_err": errStr(ro.Err), "diff": diff}
				switch {
				case o.Panic != nil:
					c.Violation(cs, "panic", PanicSig(o.Panic, o.Stack), det)
				case len(diff) != 0:
					c.Violation(cs, "dryrun.fs-changed", "", det)
				case ro.Panic == nil && (o.Err == nil) != !nameReject(ro.Err):
					c.Violation(cs, "dryrun.accept-differs-from-real", "", det)
				case o.Err == nil && !hostile && plain(rep) != model.DryRunReport(mr, BranchTuples[bi], exts):
					det["want"] = model.DryRunReport(mr, BranchTuples[bi], exts)
					c.Violation(cs, "dryrun.report-differs", "", det)
				}
			}
		}
		color.NoColor = oldNoColor
		// --- (d) the SAME programmatic tree object: dry run first, then the real run on it. The
		// dry run must predict what the real run of that very tree then creates.
		for ri, root := range f {
			if ri > 1 || hostile {
				break
			}
			if (cs.Idx+ri)%3 == 0 {
				// names only a programmatic tree can hold: line feeds inside, before and after the text
				// (one directory or file each for the real run, so one each in the dry run's counts)
				root = root.Clone()
				k := 0
				var rename func(n *model.Node)
				rename = func(n *model.Node) {
					for _, kid := range n.Kids {
						if (k+cs.Idx)%2 == 0 {
							kid.Name = []string{"notes\n", "a\nb", "\nlead", "l1\nl2\n", "two\n\nfeeds"}[k%5] + strconv.Itoa(k) + filepath.Ext(kid.Name)
						}
						k++
						rename(kid)
					}
				}
				rename(root)
				c.Count("same_tree_pairs_with_line_feeds_in_names", 1)
			}
			g := BuildRoot(root)
			var o1 Outcome
			rep := captureColorOutput(func() {
				o1 = Guard(func() error {
					return gtree.MkdirFromRoot(g, fsOpts("", exts, hasExt, true, false, false)...)
				})
			})
			j3, err := mon.NewJail(c.TmpDir, true)
			if err != nil {
				continue
			}
			// for half of the pairs the target directory of the real run does not exist yet
			tgt, rel, extra := j3.Target, j3.Rel, []string(nil)
			if (cs.Idx+ri+ei)%2 == 1 {
				tgt, rel = filepath.Join(j3.Target, "not", "there-yet"), j3.Rel+"/not/there-yet"
				extra = []string{"+d " + j3.Rel + "/not", "+d " + rel}
				c.Count("same_tree_pairs_with_a_target_that_does_not_exist_yet", 1)
			}
			before := j3.Snap()
			o2 := Guard(func() error { return gtree.MkdirFromRoot(g, fsOpts(tgt, exts, hasExt, false, false, false)...) })
			diff := mon.Diff(before, j3.Snap())
			j3.Remove()
			mr := model.Merge(model.Forest{root})
			want := expectedCreated(mr, exts, rel)
			if o2.Err == nil {
				want = append(want, extra...)
				sort.Strings(want)
			}
			cs.Entry = "MkdirFromRoot[dryrun then real, same tree]"
			c.Eval(gen.HashString(fkey+"\x00sametree"+strconv.Itoa(ei)+root.Name), merged.Size() >= 2)
			c.SetAdd("entries", cs.Entry)
			det := map[string]any{"forest": fkey, "root": root.Name, "ext": exts, "report": trunc(string(rep), 800), "dry_err": errStr(o1.Err), "real_err": errStr(o2.Err), "real_created": diff}
			switch {
			case o1.Panic != nil || o2.Panic != nil:
				c.Violation(cs, "panic", "same-tree", det)
			case (o1.Err == nil) != !nameReject(o2.Err):
				c.Violation(cs, "dryrun.accept-differs-from-real", "same-tree", det)
			case o1.Err == nil && o2.Err == nil && (string(rep) != model.DryRunReport(mr, model.DefaultBranch, exts) || !sameStrings(diff, want)):
				det["want_created"] = want
				c.Violation(cs, "dryrun.does-not-predict-real-run", "same-tree", det)
			}
		}
		// --- (e) one document with TWO root blocks of the same name (a tree written in two pieces):
		// the dry run accepts it, so the real run must, and it makes the union of both blocks
		if len(f) >= 2 && !hostile && ei == extIdx[0] && cs.Idx%3 == 1 {
			a, b := f[0].Clone(), f[1].Clone()
			b.Name = a.Name
			two := model.Forest{a, b}
			ddoc := gen.Spell(two, gen.Canonical)
			dry := OutputMD(ddoc, gtree.WithDryRun())
			union := a.Clone()
			union.Kids = append(union.Kids, b.Clone().Kids...)
			if j, err := mon.NewJail(c.TmpDir, true); err == nil {
				before := j.Snap()
				ro := mkdirCall(mkdirRoutes[0], ddoc, nil, fsOpts(j.Target, nil, false, false, false, false))
				diff := mon.Diff(before, j.Snap())
				j.Remove()
				want := expectedCreated(model.Merge(model.Forest{union}), nil, j.Rel)
				cs.Entry = "MkdirFromMarkdown[real, two root blocks of one name]"
				c.Eval(gen.HashString(fkey+"\x00tworoots"), true)
				c.Count("documents_with_two_root_blocks_of_one_name", 1)
				det := map[string]any{"doc": ddoc, "dry_err": errStr(dry.Err), "real_err": errStr(ro.Err), "real_created": diff, "want_created": want}
				switch {
				case dry.Panic != nil || ro.Panic != nil:
					c.Violation(cs, "panic", "two-root-blocks", det)
				case (dry.Err == nil) != !nameReject(ro.Err) || (dry.Err == nil && ro.Err != nil):
					c.Violation(cs, "dryrun.accept-differs-from-real", "two-root-blocks", det)
				case dry.Err == nil && !sameStrings(diff, want):
					c.Violation(cs, "dryrun.does-not-predict-real-run", "two-root-blocks", det)
				}
				cs.Entry = ""
			}
		}
		// stray dry-run option on Verify and Walk: no filesystem effect
		{
			j, err := mon.NewJail(c.TmpDir, true)
			if err == nil {
				before := j.Snap()
				cs.Entry = "Verify/Walk[stray dryrun]"
				vo := Guard(func() error {
					return gtree.VerifyFromMarkdown(MDReader(doc), gtree.WithTargetDir(j.Target), gtree.WithDryRun())
				})
				wo := Guard(func() error {
					return gtree.WalkFromMarkdown(MDReader(doc), func(*gtree.WalkerNode) error { return nil }, gtree.WithDryRun(), gtree.WithTargetDir(j.Target))
				})
				diff := mon.Diff(before, j.Snap())
				j.Remove()
				c.Eval(gen.HashString(fkey+"\x00stray"+strconv.Itoa(ei)), merged.Size() >= 2)
				if vo.Panic != nil || wo.Panic != nil {
					c.Violation(cs, "panic", "stray-dryrun", map[string]any{"forest": fkey})
				} else if len(diff) != 0 {
					c.Violation(cs, "dryrun.fs-changed", "", map[string]any{"forest": fkey, "diff": diff})
				}
			}
		}
		if merged.Size() >= 2 && c.WantSample(cs.Kind) {
			o := OutputMD(doc, fsOpts("", exts, hasExt, true, false, false)...)
			c.Sample(cs.Kind, map[string]any{"doc": doc, "ext": exts, "report": trunc(string(o.Out), 600), "real_counts": realPer})
		}
	}
	cs.Entry, cs.Tags, cs.Opt = "", nil, nil
	_ = r
	_ = context.Background
}
