package checks

import (
	"path/filepath"
	"sync/atomic"
	"io"
	"context"
	"errors"
	"fmt"
	"runtime"
	"strconv"
	"strings"
	"time"

	"github.com/ddddddO/gtree"

	"gtverif/gen"
	"gtverif/model"
	"gtverif/mon"
)

// C11 — massive mode always returns and leaves no goroutine or data race behind.
// Monitors: deadlock monitor while the call runs, leak monitor after it returned (quiescence
// criterion on goroutine states, no wall-clock verdicts), cancellation oracle
// (nil => complete output; error => the context's error), race detector on the race shards.
// Fault enumeration: 0..30 failing blocks at each pipeline stage, reader / writer / callback
// failures, cancellation at every input offset and at every hook event, pre-cancelled and
// deadline contexts, for every massive-capable operation incl. the From-Root ones.

func init() {
	Register(&Check{Prop: "C11", Run: runC11, Replay: func(c *Ctx, cs *Case) { evalC11(c, cs, mon.NewLeakMonitor()) }})
}

var c11Ops = []string{"text", "json", "yaml", "dryrun", "walk", "mkdir", "verify"}
var c11Bs = []int{0, 1, 2, 3, 5, 12, 30}

func runC11(c *Ctx) bool {
	lm := mon.NewLeakMonitor()
	idx := 0
	emit := func(cs *Case) {
		cs.Idx = idx
		idx++
		if !c.Mine(cs.Idx) {
			return
		}
		c.Journal(cs)
		evalC11(c, cs, lm)
		c.Progress(false)
		if lm.KnownCount() > 200 {
			c.Recycle()
		}
	}
	reps := c.Pick(4, 60)
	if c.Race {
		reps = c.Pick(2, 20)
	}
	for rep := 0; rep < reps; rep++ {
		// (1) failing blocks at each stage
		for _, stage := range []string{"generator", "grower", "final"} {
			for _, B := range c11Bs {
				for oi, op := range c11Ops {
					if stage == "grower" && !(op == "dryrun" || op == "mkdir" || op == "verify") {
						continue // name validation is only on for these
					}
					if c.Quick() && (oi+B+rep)%2 == 1 && B != 3 {
						continue
					}
					emit(&Case{Kind: "failing-blocks", Opt: map[string]string{"op": op, "stage": stage}, N: []int{B}, Seed: gen.New(c.Seed, 1101, uint64(idx)).Uint64()})
				}
			}
		}
		// (2) reader failing after byte k (splitter stage)
		for oi, op := range c11Ops {
			for _, frac := range []int{0, 1, 3, 5, 8, 10} {
				if c.Quick() && (oi+frac+rep)%2 == 1 {
					continue
				}
				emit(&Case{Kind: "reader-fails", Opt: map[string]string{"op": op}, N: []int{frac}, Seed: gen.New(c.Seed, 1102, uint64(idx)).Uint64()})
			}
		}
		// (3) cancellation at every input offset
		for _, op := range c11Ops {
			emit(&Case{Kind: "cancel-at-offset", Opt: map[string]string{"op": op}, Seed: gen.New(c.Seed, 1103, uint64(idx)).Uint64()})
		}
		// (4) cancellation at every hook event
		for _, op := range c11Ops {
			for v := 0; v < c.Pick(1, 3); v++ {
				emit(&Case{Kind: "cancel-at-hook", Opt: map[string]string{"op": op}, Seed: gen.New(c.Seed, 1104, uint64(idx)).Uint64()})
			}
		}
		// (5) context already cancelled / deadline
		for _, op := range c11Ops {
			emit(&Case{Kind: "pre-cancelled", Opt: map[string]string{"op": op}, Seed: gen.New(c.Seed, 1105, uint64(idx)).Uint64()})
			emit(&Case{Kind: "deadline", Opt: map[string]string{"op": op}, Seed: gen.New(c.Seed, 1106, uint64(idx)).Uint64()})
		}
		// (5b) plain successful calls in bursts: little for the leak monitor to see, but on the race
		// build this is what gives the detector enough overlapping accesses between the caller's
		// set-up code and the freshly started workers (parallel schedules only)
		for _, op := range c11Ops {
			emit(&Case{Kind: "burst", Opt: map[string]string{"op": op}, Seed: gen.New(c.Seed, 1108, uint64(idx)).Uint64()})
		}
		// (5c) large roots: a root block bigger than a 4096-byte buffer, slow writer; the caller's
		// writer must never be entered by two goroutines at once
		for _, op := range []string{"text", "dryrun", "json"} {
			emit(&Case{Kind: "large-roots", Opt: map[string]string{"op": op}, Seed: gen.New(c.Seed, 1109, uint64(idx)).Uint64()})
		}
		// (6) From-Root operations in massive mode
		for _, op := range []string{"text", "json", "walk", "mkdir", "verify", "dryrun"} {
			for _, k := range []string{"plain", "pre-cancelled", "cancel-at-hook", "fails"} {
				emit(&Case{Kind: "from-root." + k, Opt: map[string]string{"op": op}, Seed: gen.New(c.Seed, 1107, uint64(idx)).Uint64()})
			}
		}
		// (7) a reader that says nothing at all (its first Read blocks) while the context expires or
		// is cancelled: the call must still return, with the context's error
		for _, op := range c11Ops {
			emit(&Case{Kind: "silent-reader", Opt: map[string]string{"op": op}, Seed: gen.New(c.Seed, 1110, uint64(idx)).Uint64()})
		}
		// (7b) a reader that never ends (a stream): once the cancelled call has returned, nobody may
		// go on reading from it
		for _, op := range []string{"text", "json", "walk", "dryrun"} {
			emit(&Case{Kind: "endless-reader", Opt: map[string]string{"op": op}, Seed: gen.New(c.Seed, 1112, uint64(idx)).Uint64()})
		}
		// (7c) a callback that neither returns nil nor an error: it ends the goroutine it runs in
		// (runtime.Goexit, i.e. t.FailNow / t.SkipNow / require.* in a test). The call still
		// returns and leaves nothing behind
		for _, fam := range []string{"markdown", "root"} {
			emit(&Case{Kind: "goexit-callback", Opt: map[string]string{"op": "walk", "family": fam}, Seed: gen.New(c.Seed, 1113, uint64(idx)).Uint64()})
		}
		// (7d) the filesystem refuses at the verify / mkdir stage for EVERY root at once (the target
		// is a regular file: ENOTDIR; root names of 300 bytes: ENAMETOOLONG): many workers fail at
		// the same moment with an error that is not "missing", and all of them must get away
		for _, op := range []string{"verify", "mkdir"} {
			emit(&Case{Kind: "fs-refuses-every-root", Opt: map[string]string{"op": op}, Seed: gen.New(c.Seed, 1114, uint64(idx)).Uint64()})
		}
		// (8) a writer that accepts nothing (its first Write blocks) while the context expires or is cancelled
		for _, op := range []string{"text", "json", "yaml", "dryrun"} {
			emit(&Case{Kind: "silent-writer", Opt: map[string]string{"op": op}, Seed: gen.New(c.Seed, 1111, uint64(idx)).Uint64()})
		}
	}
	return true
}

// c11Doc builds a document with nRoots blocks; failing (indices) blocks get a defect by stage.
func c11Doc(r *gen.Rand, nRoots int, failing map[int]bool, stage string) (model.Forest, string) {
	var f model.Forest
	for i := 0; i < nRoots; i++ {
		blk := gen.RandForest(r, r.Range(1, 6), 3, []int{gen.ClassPlain, gen.ClassExt}, 0)
		f = append(f, blk[0])
	}
	c08Safe(f)
	var sb strings.Builder
	if r.Chance(1, 5) {
		// a leading line of white space only (ASCII or not): blank for the parser, so nothing to do
		sb.WriteString([]string{"   \n", "\u3000\n", "\u00a0\t\n", "\n"}[r.Intn(4)])
	}
	for i, root := range f {
		lines := gen.SpellLines(model.Forest{root}, gen.Spelling{Unit: "  ", Bullet: 0, FinalNL: true})
		for li, l := range lines {
			text := l.Text
			if failing[i] && stage == "generator" && li == len(lines)-1 {
				// malformed line: the generator stage fails on this block - no bullet, an item without
				// text, a heading without text (each is another error path of the shared parser)
				text = []string{"  x no bullet here", "  - ", "#", "## ", "  x no bullet here"}[(i+nRoots)%5]
			}
			sb.WriteString(text + "\n")
		}
		if failing[i] && stage == "grower" {
			sb.WriteString("  - bad/name\n") // invalid path element: the grower fails when validation is on
		}
	}
	return f, sb.String()
}

type c11Exec struct {
	op       string
	fromRoot bool
	doc      []byte
	root     *gtree.Node
	ctx      context.Context
	reader   *mon.FaultReader
	readerAny io.Reader // used instead of reader when set
	writer   *mon.RecWriter
	cbFailAt int // walk: callback fails at this visit (<0 never)
	cbExit   bool // walk: the callback ends its goroutine (runtime.Goexit) at visit cbExitAt
	cbExitAt int
	target   string
	sched    *mon.Sched
	onReturn func() // called as soon as the call has returned, before the leak monitor looks
	// results
	err   error
	rows  int
	guard mon.GuardResult
	leak  *mon.LeakReport
}

var errC11Callback = errors.New("callback failure")

// run executes one massive call under the monitors.
func (e *c11Exec) run(lm *mon.LeakMonitor) {
	opts := []gtree.Option{gtree.WithMassive(e.ctx)}
	switch e.op {
	case "json":
		opts = append(opts, gtree.WithEncodeJSON())
	case "yaml":
		opts = append(opts, gtree.WithEncodeYAML())
	case "dryrun":
		opts = append(opts, gtree.WithDryRun(), gtree.WithFileExtensions([]string{".gz"}))
	case "mkdir":
		opts = append(opts, gtree.WithTargetDir(e.target), gtree.WithFileExtensions([]string{".gz"}))
	case "verify":
		opts = append(opts, gtree.WithTargetDir(e.target))
	}
	if e.writer == nil {
		e.writer = mon.NewRecWriter()
		e.writer.Yield = true // widen the window in which an unserialised second Write would overlap
	}
	if e.reader == nil {
		e.reader = &mon.FaultReader{Doc: e.doc, K: -1}
	}
	var rdr io.Reader = e.reader
	if e.readerAny != nil {
		rdr = e.readerAny
	}
	var nrows int
	var mu = make(chan struct{}, 1)
	cb := func(*gtree.WalkerNode) error {
		mu <- struct{}{}
		i := nrows
		nrows++
		<-mu
		if e.cbFailAt >= 0 && i >= e.cbFailAt {
			return errC11Callback
		}
		if e.cbExit && i == e.cbExitAt {
			runtime.Goexit() // what t.FailNow / t.Skip / require.* do inside a callback
		}
		return nil
	}
	if e.sched != nil {
		gtree.VerifSetPointHook(e.sched.Hook)
		defer gtree.VerifSetPointHook(nil)
	}
	base := runtime.NumGoroutine()
	e.guard = lm.RunGuarded(func() {
		switch {
		case e.fromRoot && e.op == "walk":
			e.err = gtree.WalkFromRoot(e.root, cb, opts...)
		case e.fromRoot && (e.op == "mkdir" || e.op == "dryrun"):
			var err error
			captureColorOutput(func() { err = gtree.MkdirFromRoot(e.root, opts...) })
			e.err = err
		case e.fromRoot && e.op == "verify":
			e.err = gtree.VerifyFromRoot(e.root, opts...)
		case e.fromRoot:
			e.err = gtree.OutputFromRoot(e.writer, e.root, opts...)
		case e.op == "walk":
			e.err = gtree.WalkFromMarkdown(rdr, cb, opts...)
		case e.op == "mkdir":
			e.err = gtree.MkdirFromMarkdown(rdr, opts...)
		case e.op == "verify":
			e.err = gtree.VerifyFromMarkdown(rdr, opts...)
		default:
			e.err = gtree.OutputFromMarkdown(e.writer, rdr, opts...)
		}
	}, 60*time.Second)
	if e.onReturn != nil {
		e.onReturn()
	}
	if e.guard.Returned {
		e.leak = lm.AfterCall(base)
	}
	mu <- struct{}{}
	e.rows = nrows
	<-mu
}

// c11Judge applies the return / leak clauses; it returns false when the worker must be recycled.
func c11Judge(c *Ctx, cs *Case, e *c11Exec, det map[string]any) bool {
	c.Count("executions", 1)
	if e.sched != nil {
		_, counts, fired := e.sched.Trace()
		for p := range counts {
			c.SetAdd("points_reached", p)
		}
		if fired {
			c.Count("triggers_fired", 1)
		}
	}
	det["err"] = errStr(e.err)
	switch {
	case e.guard.Panic != nil:
		det["stack"] = e.guard.PanicStk
		c.Violation(cs, "panic", PanicSig(e.guard.Panic, e.guard.PanicStk), det)
	case e.guard.Hung:
		det["dump"] = trunc(e.guard.Dump, 5000)
		c.Violation(cs, "hang", e.guard.Signature, det)
		return false
	case e.guard.Timeout:
		c.Inconclusive(cs, "watchdog fired while goroutines were still active: "+e.guard.Signature)
		return false
	}
	if e.writer != nil {
		// the caller's writer is not goroutine-safe in general: Write calls must never overlap
		if _, _, conc := e.writer.Stats(); conc > 1 {
			det["max_concurrent_writes"] = conc
			c.Violation(cs, "writer.called-concurrently", e.op, det)
		}
	}
	if e.leak != nil {
		if e.leak.Active {
			c.Inconclusive(cs, "goroutines still active after the settle limit: "+e.leak.Signature)
		} else {
			var dump []string
			for i := range e.leak.Leaked {
				if i < 4 {
					dump = append(dump, e.leak.Leaked[i].Raw)
				}
			}
			det["leaked"] = len(e.leak.Leaked)
			det["dump"] = trunc(strings.Join(dump, "\n\n"), 4000)
			c.Violation(cs, "leak", e.leak.Signature, det)
			c.Count("leaks", 1)
		}
	}
	return true
}

func evalC11(c *Ctx, cs *Case, lm *mon.LeakMonitor) {
	r := gen.New(cs.Seed, 11)
	op := cs.O("op")
	procs := []int{1, 2, 4, 16}[r.Intn(4)]
	old := runtime.GOMAXPROCS(procs)
	defer runtime.GOMAXPROCS(old)
	c.SetAdd("gomaxprocs", strconv.Itoa(procs))
	c.SetAdd("ops", op)
	c.SetAdd("kinds", cs.Kind)
	profile := []mon.Profile{mon.ProfNone, mon.ProfLight, mon.ProfHeavy}[r.Intn(3)]
	baseTags := []string{cs.Kind, "op=" + op}
	cs.Tags = baseTags
	cs.Entry = op + ",massive"
	defer func() { cs.Tags, cs.Entry = nil, "" }()
	recycle := func() { c.Recycle() }
	newJail := func(f model.Forest, populate bool) *mon.Jail {
		j, err := mon.NewJail(c.TmpDir, true)
		if err != nil {
			return nil
		}
		if populate {
			for _, en := range model.FSEntries(model.Merge(f), nil) {
				mkdirAll(j.Target + "/" + en.Path)
			}
		}
		return j
	}
	key := func(extra string) uint64 {
		return gen.HashString(cs.Kind + op + strconv.FormatUint(cs.Seed, 16) + extra)
	}
	// completeness of a nil result for a valid document
	complete := func(e *c11Exec, f model.Forest) (bool, string) {
		merged := model.Merge(f)
		switch op {
		case "text":
			return coverBlocks(string(e.writer.Bytes()), model.RenderBlocks(merged, model.DefaultBranch)), "text output incomplete"
		case "dryrun":
			if e.fromRoot {
				return true, ""
			}
			return coverBlocks(string(e.writer.Bytes()), model.DryRunBlocks(merged, model.DefaultBranch, []string{".gz"})), "dry-run report incomplete"
		case "json":
			got, err := DecodeJSONLines(e.writer.Bytes())
			return err == nil && len(got) == len(merged), "JSON output incomplete"
		case "yaml":
			got, err := DecodeYAMLDocs(e.writer.Bytes())
			return err == nil && len(got) == len(merged), "YAML output incomplete"
		case "walk":
			return e.rows == merged.Size(), fmt.Sprintf("walk visited %d of %d nodes", e.rows, merged.Size())
		case "mkdir":
			snap, _ := mon.Snap(e.target)
			return len(snap) == len(model.FSEntries(merged, []string{".gz"})), "mkdir created an incomplete tree"
		}
		return true, ""
	}
	cancelJudge := func(e *c11Exec, f model.Forest, ctx context.Context, det map[string]any) {
		if e.err == nil {
			if ok, why := complete(e, f); !ok {
				det["why"] = why
				det["out"] = trunc(string(e.writer.Bytes()), 600)
				c.Violation(cs, "cancel.nil-but-incomplete", op, det)
			}
			return
		}
		if ctx.Err() == nil || !errors.Is(e.err, ctx.Err()) {
			det["ctx_err"] = errStr(ctx.Err())
			c.Violation(cs, "cancel.error-is-not-the-contexts", op, det)
		}
	}

	switch {
	case cs.Kind == "failing-blocks":
		B := cs.N[0]
		stage := cs.O("stage")
		nRoots := B + r.Range(1, 8)
		if B == 0 {
			nRoots = r.Range(1, 20)
		}
		failing := map[int]bool{}
		switch r.Intn(3) {
		case 0: // first blocks
			for i := 0; i < B; i++ {
				failing[i] = true
			}
		case 1: // last blocks
			for i := 0; i < B; i++ {
				failing[nRoots-1-i] = true
			}
		default: // seeded positions
			for _, i := range r.Perm(nRoots)[:B] {
				failing[i] = true
			}
		}
		f, doc := c11Doc(r, nRoots, failing, stage)
		e := &c11Exec{op: op, doc: []byte(doc), ctx: context.Background(), cbFailAt: -1, sched: mon.NewSched(profile, r.Uint64())}
		var j *mon.Jail
		if op == "mkdir" || op == "verify" {
			populate := op == "verify"
			if j = newJail(f, populate); j == nil {
				return
			}
			defer j.Remove()
			e.target = j.Target
			if stage == "final" {
				// final-stage failures: pre-existing roots for mkdir, missing roots for verify
				for i, root := range f {
					if failing[i] {
						if op == "mkdir" {
							mkdirAll(j.Target + "/" + root.Name)
						} else {
							removeAll(j.Target + "/" + root.Name)
						}
					}
				}
			}
		}
		if stage == "final" && B > 0 {
			switch op {
			case "walk":
				e.cbFailAt = r.Intn(3)
			case "text", "json", "yaml", "dryrun":
				e.writer = mon.NewRecWriter()
				e.writer.FailAt = r.Intn(3)
			}
		}
		cs.Tags = append(append([]string(nil), baseTags...), "stage="+stage, "B="+strconv.Itoa(B))
		if B >= 3 {
			cs.AddTag("B>=3")
		}
		cs.SetDoc(doc)
		c.Rejournal(cs)
		e.run(lm)
		c.Eval(key(stage+strconv.Itoa(B)+strconv.FormatUint(e.sched.Signature(), 16)), B > 0)
		det := map[string]any{"doc": trunc(doc, 1500), "B": B, "stage": stage, "roots": nRoots, "gomaxprocs": procs, "profile": profile.Name}
		if !c11Judge(c, cs, e, det) {
			recycle()
		}
		// the injected fault must have taken effect (observed, not requested)
		took := B > 0
		if stage == "final" {
			switch op {
			case "walk":
				took = took && e.rows > e.cbFailAt
			case "text", "json", "yaml", "dryrun":
				_, failed, _ := e.writer.Stats()
				took = took && failed > 0
			}
		}
		if took {
			c.Count("faults_took_effect", 1)
		}
		if took && e.err == nil && e.guard.Returned {
			c.Violation(cs, "fault.reported-success", stage, det)
		}
		if c.WantSample(cs.Kind) && B >= 3 {
			tr, _, _ := e.sched.Trace()
			if len(tr) > 50 {
				tr = tr[:50]
			}
			c.Sample(cs.Kind, map[string]any{"op": op, "stage": stage, "B": B, "roots": nRoots, "err": errStr(e.err), "hook_trace_head": tr, "gomaxprocs": procs})
		}

	case cs.Kind == "reader-fails":
		nRoots := r.Range(2, 15)
		f, doc := c11Doc(r, nRoots, nil, "")
		k := len(doc) * cs.N[0] / 10
		sentinel := errors.New("reader-sentinel")
		e := &c11Exec{op: op, doc: []byte(doc), ctx: context.Background(), cbFailAt: -1, sched: mon.NewSched(profile, r.Uint64()),
			reader: &mon.FaultReader{Doc: []byte(doc), K: k, Chunk: 1 + r.Intn(40), Err: sentinel}}
		if op == "mkdir" || op == "verify" {
			j := newJail(f, op == "verify")
			if j == nil {
				return
			}
			defer j.Remove()
			e.target = j.Target
		}
		cs.SetDoc(doc)
		cs.N = append(cs.N[:1], k)
		c.Rejournal(cs)
		e.run(lm)
		c.Eval(key(strconv.Itoa(k)+strconv.FormatUint(e.sched.Signature(), 16)), true)
		det := map[string]any{"doc": trunc(doc, 1000), "offset": k, "gomaxprocs": procs, "profile": profile.Name}
		if !c11Judge(c, cs, e, det) {
			recycle()
		}
		if e.guard.Returned && !errors.Is(e.err, sentinel) {
			c.Violation(cs, "fault.reader-error-not-returned", op, det)
		}

	case cs.Kind == "cancel-at-offset":
		nRoots := r.Range(3, 10)
		f, doc := c11Doc(r, nRoots, nil, "")
		stride := 1
		if len(doc) > 200 || !c.Quick() && len(doc) > 400 {
			stride = len(doc)/150 + 1
		}
		for k := 0; k <= len(doc); k += stride {
			ctx, cancel := context.WithCancel(context.Background())
			if k%3 == 1 {
				// a context that carries an application-level CAUSE: the call must still return the
				// context's error (context.Canceled), not the cause
				cctx, ccancel := context.WithCancelCause(context.Background())
				ctx, cancel = cctx, func() { ccancel(errors.New("server is shutting down")) }
				c.Count("contexts_with_a_cause", 1)
			}
			rd := &mon.FaultReader{Doc: []byte(doc), K: -1, Chunk: 1 + (k % 23)}
			kk := k
			if kk == 0 {
				cancel() // cancelled before the first byte
			}
			rd.OnByte = func(n int) {
				if n >= kk {
					cancel()
				}
			}
			e := &c11Exec{op: op, doc: []byte(doc), ctx: ctx, cbFailAt: -1, reader: rd, sched: mon.NewSched(profile, r.Uint64())}
			var j *mon.Jail
			if op == "mkdir" || op == "verify" {
				if j = newJail(f, op == "verify"); j == nil {
					cancel()
					return
				}
				e.target = j.Target
			}
			cs.N = []int{k}
			cs.SetDoc(doc)
			c.Rejournal(cs)
			e.run(lm)
			c.Eval(key(strconv.Itoa(k)+strconv.FormatUint(e.sched.Signature(), 16)), true)
			c.Count("cancellations_at_offsets", 1)
			det := map[string]any{"doc": trunc(doc, 800), "cancel_after_bytes": k, "gomaxprocs": procs, "profile": profile.Name}
			ok := c11Judge(c, cs, e, det)
			if e.guard.Returned {
				cancelJudge(e, f, ctx, det)
			}
			cancel()
			if j != nil {
				j.Remove()
			}
			if !ok {
				recycle()
			}
		}

	case cs.Kind == "cancel-at-hook":
		nRoots := r.Range(2, 8)
		f, doc := c11Doc(r, nRoots, nil, "")
		// unperturbed run to learn how many hook events there are
		probe := &c11Exec{op: op, doc: []byte(doc), ctx: context.Background(), cbFailAt: -1, sched: mon.NewSched(mon.ProfNone, 1)}
		var pj *mon.Jail
		if op == "mkdir" || op == "verify" {
			if pj = newJail(f, op == "verify"); pj == nil {
				return
			}
			probe.target = pj.Target
		}
		cs.SetDoc(doc)
		c.Rejournal(cs)
		probe.run(lm)
		if pj != nil {
			pj.Remove()
		}
		if !c11Judge(c, cs, probe, map[string]any{"doc": trunc(doc, 800), "probe": true}) {
			recycle()
		}
		events := probe.sched.Total()
		stride := 1
		if events > 120 {
			stride = events/100 + 1
		}
		for K := 0; K <= events; K += stride {
			ctx, cancel := context.WithCancel(context.Background())
			s := mon.NewSched(profile, r.Uint64())
			s.TrigAt, s.Fire = K, cancel
			e := &c11Exec{op: op, doc: []byte(doc), ctx: ctx, cbFailAt: -1, sched: s}
			var j *mon.Jail
			if op == "mkdir" || op == "verify" {
				if j = newJail(f, op == "verify"); j == nil {
					cancel()
					return
				}
				e.target = j.Target
			}
			cs.N = []int{K, events}
			c.Rejournal(cs)
			e.run(lm)
			c.Eval(key(strconv.Itoa(K)+strconv.FormatUint(s.Signature(), 16)), true)
			c.Count("cancellations_at_hook_events", 1)
			tr, _, fired := s.Trace()
			if len(tr) > 40 {
				tr = tr[:40]
			}
			det := map[string]any{"doc": trunc(doc, 800), "cancel_at_event": K, "events_unperturbed": events, "trigger_fired": fired, "hook_trace_head": tr, "gomaxprocs": procs, "profile": profile.Name}
			ok := c11Judge(c, cs, e, det)
			if e.guard.Returned {
				cancelJudge(e, f, ctx, det)
			}
			cancel()
			if j != nil {
				j.Remove()
			}
			if !ok {
				recycle()
			}
			if c.WantSample(cs.Kind) && fired {
				c.Sample(cs.Kind, map[string]any{"op": op, "cancel_at_event": K, "events": events, "err": errStr(e.err), "hook_trace_head": tr})
			}
		}

	case cs.Kind == "large-roots":
		runtime.GOMAXPROCS([]int{2, 4, 16}[r.Intn(3)])
		var sb strings.Builder
		var f model.Forest
		for k := 0; k < 6; k++ {
			n := r.Range(160, 320)
			root := &model.Node{Name: "big" + strconv.Itoa(k)}
			sb.WriteString("- " + root.Name + "\n")
			for i := 1; i < n; i++ {
				name := "node-" + strconv.Itoa(k) + "-" + strconv.Itoa(i) + "-padding-padding"
				root.Kids = append(root.Kids, &model.Node{Name: name})
				sb.WriteString("  - " + name + "\n")
			}
			f = append(f, root)
		}
		doc := sb.String()
		runs := c.Pick(6, 20)
		for i := 0; i < runs; i++ {
			w := mon.NewRecWriter()
			w.Yield = true
			if i%2 == 0 {
				w.Delay = 30 * time.Microsecond
			}
			e := &c11Exec{op: op, doc: []byte(doc), ctx: context.Background(), cbFailAt: -1, writer: w}
			cs.N = []int{i}
			if i == 0 {
				cs.SetDoc(doc)
				c.Rejournal(cs)
			}
			e.run(lm)
			_, _, conc := w.Stats()
			c.Eval(key("large"+strconv.Itoa(i)), true)
			c.Count("large_root_calls", 1)
			det := map[string]any{"roots": 6, "run": i, "max_concurrent_writes": conc}
			ok := c11Judge(c, cs, e, det)
			if conc > 1 {
				c.Violation(cs, "writer.called-concurrently", op, det)
			}
			if e.guard.Returned {
				if e.err != nil {
					c.Violation(cs, "burst.unexpected-error", op, det)
				} else if okc, why := complete(e, f); !okc {
					det["why"] = why
					c.Violation(cs, "large-roots.output-incomplete", op, det)
				}
			}
			if !ok {
				recycle()
			}
		}

	case cs.Kind == "burst":
		runtime.GOMAXPROCS([]int{4, 16}[r.Intn(2)])
		nRoots := 20
		f, doc := c11Doc(r, nRoots, nil, "")
		runs := c.Pick(60, 200)
		var j *mon.Jail
		if op == "verify" {
			if j = newJail(f, true); j == nil {
				return
			}
			defer j.Remove()
		}
		for i := 0; i < runs; i++ {
			e := &c11Exec{op: op, doc: []byte(doc), ctx: context.Background(), cbFailAt: -1}
			var mj *mon.Jail
			if op == "mkdir" {
				if mj = newJail(f, false); mj == nil {
					return
				}
				e.target = mj.Target
			} else if j != nil {
				e.target = j.Target
			}
			cs.N = []int{i}
			if i == 0 {
				cs.SetDoc(doc)
				c.Rejournal(cs)
			}
			e.run(lm)
			c.Eval(key("burst"+strconv.Itoa(i)), i == 0)
			c.Count("burst_calls", 1)
			det := map[string]any{"doc": trunc(doc, 600), "run": i}
			ok := c11Judge(c, cs, e, det)
			if e.guard.Returned && e.err != nil {
				c.Violation(cs, "burst.unexpected-error", op, det)
			}
			if mj != nil {
				mj.Remove()
			}
			if !ok {
				recycle()
			}
		}

	case cs.Kind == "silent-reader":
		f, doc := c11Doc(r, r.Range(1, 6), nil, "")
		for i := 0; i < c.Pick(3, 10); i++ {
			ctx, cancel := context.WithCancel(context.Background())
			if i%2 == 0 {
				ctx, cancel = context.WithTimeout(context.Background(), time.Duration(2+r.Intn(20))*time.Millisecond)
			} else {
				time.AfterFunc(time.Duration(2+r.Intn(20))*time.Millisecond, cancel)
			}
			block := make(chan struct{})
			e := &c11Exec{op: op, doc: []byte(doc), ctx: ctx, cbFailAt: -1, sched: mon.NewSched(mon.ProfNone, r.Uint64())}
			e.reader = &mon.FaultReader{Doc: []byte(doc), K: -1, Block: block}
			// once the call is back the producer "hangs up": the goroutine that sits in the caller's own
			// Read can end (nobody can interrupt a Read; that it is still there at return is not the library's doing)
			e.onReturn = func() { close(block) }
			var j *mon.Jail
			if op == "mkdir" || op == "verify" {
				if j = newJail(f, op == "verify"); j == nil {
					cancel()
					return
				}
				e.target = j.Target
			}
			cs.N = []int{i}
			cs.SetDoc(doc)
			c.Rejournal(cs)
			e.run(lm)
			c.Eval(key("silent"+strconv.Itoa(i)), true)
			c.Count("silent_reader_calls", 1)
			det := map[string]any{"doc": trunc(doc, 400), "run": i}
			ok := c11Judge(c, cs, e, det)
			if e.guard.Returned && !errors.Is(e.err, ctx.Err()) {
				det["err"] = errStr(e.err)
				c.Violation(cs, "cancel.not-the-context-error", op, det)
			}
			cancel()
			if j != nil {
				j.Remove()
			}
			if !ok {
				recycle()
			}
		}

	case cs.Kind == "endless-reader":
		for i := 0; i < c.Pick(3, 10); i++ {
			ctx, cancel := context.WithCancel(context.Background())
			er := &endlessReader{heading: i%2 == 0, stopAfter: 400000}
			cutoff := 200 + r.Intn(3000)
			er.onRead = func(n int) {
				if n >= cutoff {
					cancel()
				}
			}
			e := &c11Exec{op: op, ctx: ctx, cbFailAt: -1, sched: mon.NewSched(mon.ProfNone, r.Uint64())}
			e.readerAny = er
			var atReturn, later int64
			e.onReturn = func() {
				atReturn = er.reads.Load()
				time.Sleep(30 * time.Millisecond)
				later = er.reads.Load()
			}
			cs.N = []int{i}
			c.Rejournal(cs)
			e.run(lm)
			er.stop.Store(true) // from now on the stream ends, so that whatever still reads can finish
			c.Eval(key("endless"+strconv.Itoa(i)), true)
			c.Count("endless_reader_calls", 1)
			det := map[string]any{"run": i, "reads_at_return": atReturn, "reads_30ms_later": later, "heading_roots": er.heading}
			ok := c11Judge(c, cs, e, det)
			if e.guard.Returned {
				if !errors.Is(e.err, context.Canceled) {
					det["err"] = errStr(e.err)
					c.Violation(cs, "cancel.error-is-not-the-contexts", op, det)
				} else if later > atReturn+2 {
					c.Violation(cs, "reads-after-return", op, det)
				}
			}
			cancel()
			if !ok {
				recycle()
			}
		}

	case cs.Kind == "fs-refuses-every-root":
		for i := 0; i < c.Pick(20, 80); i++ {
			nRoots := []int{3, 5, 12, 30}[i%4]
			var sb strings.Builder
			long := i%2 == 1
			for k := 0; k < nRoots; k++ {
				name := "root" + strconv.Itoa(k)
				if long {
					name += strings.Repeat("n", 300)
				}
				sb.WriteString("- " + name + "\n  - kid\n")
			}
			doc := sb.String()
			j, err := mon.NewJail(c.TmpDir, true)
			if err != nil {
				return
			}
			target := j.Target
			if !long {
				target = filepath.Join(filepath.Dir(j.Target), "sentinel-file") // a regular file
			}
			e := &c11Exec{op: op, doc: []byte(doc), ctx: context.Background(), cbFailAt: -1, target: target, sched: mon.NewSched(profile, r.Uint64())}
			cs.N = []int{i}
			cs.SetDoc(doc)
			c.Rejournal(cs)
			e.run(lm)
			j.Remove()
			c.Eval(key("fsrefuse"+strconv.Itoa(i)), true)
			c.Count("calls_where_the_filesystem_refused_every_root", 1)
			det := map[string]any{"roots": nRoots, "run": i, "refusal": map[bool]string{true: "ENAMETOOLONG", false: "ENOTDIR"}[long], "gomaxprocs": procs}
			ok := c11Judge(c, cs, e, det)
			if e.guard.Returned && e.err == nil {
				c.Violation(cs, "fs-refusal.returned-nil", op, det)
			}
			if !ok {
				recycle()
			}
		}

	case cs.Kind == "goexit-callback":
		for i := 0; i < c.Pick(6, 30); i++ {
			nRoots := r.Range(1, 9)
			f, doc := c11Doc(r, nRoots, nil, "")
			ctx, cancel := context.WithCancel(context.Background())
			e := &c11Exec{op: "walk", doc: []byte(doc), ctx: ctx, cbFailAt: -1, cbExit: true, sched: mon.NewSched(mon.ProfNone, r.Uint64())}
			total := model.Merge(f).Size()
			e.cbExitAt = r.Intn(total)
			if cs.Opt["family"] == "root" {
				e.fromRoot, e.root = true, BuildRoot(model.Merge(f)[0])
				e.cbExitAt = r.Intn(model.Merge(f)[0].Size())
			}
			cs.N = []int{i, e.cbExitAt}
			cs.SetDoc(doc)
			c.Rejournal(cs)
			e.run(lm)
			c.Eval(key("goexit"+strconv.Itoa(i)), true)
			c.Count("calls_whose_callback_ended_its_goroutine", 1)
			det := map[string]any{"doc": trunc(doc, 400), "run": i, "goexit_at_visit": e.cbExitAt, "family": cs.Opt["family"]}
			ok := c11Judge(c, cs, e, det)
			cancel()
			if !ok {
				recycle()
			}
		}

	case cs.Kind == "silent-writer":
		_, doc := c11Doc(r, r.Range(2, 8), nil, "")
		for i := 0; i < c.Pick(3, 10); i++ {
			ctx, cancel := context.WithCancel(context.Background())
			if i%2 == 0 {
				ctx, cancel = context.WithTimeout(context.Background(), time.Duration(2+r.Intn(20))*time.Millisecond)
			} else {
				time.AfterFunc(time.Duration(2+r.Intn(20))*time.Millisecond, cancel)
			}
			block := make(chan struct{})
			e := &c11Exec{op: op, doc: []byte(doc), ctx: ctx, cbFailAt: -1, sched: mon.NewSched(mon.ProfNone, r.Uint64())}
			e.writer = mon.NewRecWriter()
			e.writer.Block = block
			// the consumer "comes back" (and refuses) once the call has returned, so that the goroutine
			// that sits in the caller's own Write can end
			e.onReturn = func() { close(block) }
			cs.N = []int{i}
			cs.SetDoc(doc)
			c.Rejournal(cs)
			e.run(lm)
			c.Eval(key("silentw"+strconv.Itoa(i)), true)
			c.Count("silent_writer_calls", 1)
			det := map[string]any{"doc": trunc(doc, 400), "run": i}
			ok := c11Judge(c, cs, e, det)
			if e.guard.Returned && !errors.Is(e.err, ctx.Err()) {
				det["err"] = errStr(e.err)
				c.Violation(cs, "cancel.not-the-context-error", op, det)
			}
			cancel()
			if !ok {
				recycle()
			}
		}

	case cs.Kind == "pre-cancelled" || cs.Kind == "deadline":
		nRoots := r.Range(1, 12)
		f, doc := c11Doc(r, nRoots, nil, "")
		runs := c.Pick(40, 120)
		for i := 0; i < runs; i++ {
			var ctx context.Context
			var cancel context.CancelFunc
			if cs.Kind == "pre-cancelled" {
				ctx, cancel = context.WithCancel(context.Background())
				cancel()
			} else {
				ctx, cancel = context.WithTimeout(context.Background(), time.Duration(r.Intn(400))*time.Microsecond)
			}
			e := &c11Exec{op: op, doc: []byte(doc), ctx: ctx, cbFailAt: -1, sched: mon.NewSched(profile, r.Uint64())}
			var j *mon.Jail
			if op == "mkdir" || op == "verify" {
				if j = newJail(f, op == "verify"); j == nil {
					cancel()
					return
				}
				e.target = j.Target
			}
			cs.N = []int{i}
			cs.SetDoc(doc)
			c.Rejournal(cs)
			e.run(lm)
			c.Eval(key(strconv.Itoa(i)+strconv.FormatUint(e.sched.Signature(), 16)), true)
			c.Count(cs.Kind+"_calls", 1)
			det := map[string]any{"doc": trunc(doc, 800), "run": i, "gomaxprocs": procs, "profile": profile.Name}
			ok := c11Judge(c, cs, e, det)
			if e.guard.Returned {
				cancelJudge(e, f, ctx, det)
			}
			cancel()
			if j != nil {
				j.Remove()
			}
			if !ok {
				recycle()
			}
		}

	case strings.HasPrefix(cs.Kind, "from-root."):
		sub := strings.TrimPrefix(cs.Kind, "from-root.")
		f := gen.RandForest(r, 10, 4, []int{gen.ClassPlain, gen.ClassExt}, 0)
		depths, names := gen.Depths(f)
		for k := 1; k < len(depths); k++ {
			if depths[k] == 1 {
				depths[k] = 2
			}
		}
		if sub == "fails" && (op == "mkdir" || op == "verify" || op == "dryrun") && len(names) > 1 {
			names[len(names)-1] = "bad/name"
		}
		f = gen.FromDepths(depths, names)
		if sub != "fails" {
			c08Safe(f)
		}
		runs := c.Pick(25, 80)
		for i := 0; i < runs; i++ {
			ctx, cancel := context.WithCancel(context.Background())
			s := mon.NewSched(profile, r.Uint64())
			switch sub {
			case "pre-cancelled":
				cancel()
			case "cancel-at-hook":
				s.TrigAt, s.Fire = i%8, cancel
			}
			e := &c11Exec{op: op, fromRoot: true, root: BuildRoot(f[0]), ctx: ctx, cbFailAt: -1, sched: s}
			if sub == "fails" {
				switch op {
				case "walk":
					e.cbFailAt = 0
				case "text", "json":
					e.writer = mon.NewRecWriter()
					e.writer.FailAt = 0
				}
			}
			var j *mon.Jail
			if op == "mkdir" || op == "verify" {
				if j = newJail(f, op == "verify"); j == nil {
					cancel()
					return
				}
				e.target = j.Target
			}
			cs.N = []int{i}
			cs.Entry = op + ",massive,from-root"
			c.Rejournal(cs)
			e.run(lm)
			c.Eval(key(strconv.Itoa(i)+strconv.FormatUint(s.Signature(), 16)), true)
			c.Count("from_root_calls", 1)
			det := map[string]any{"tree": f.String(), "run": i, "sub": sub, "gomaxprocs": procs, "profile": profile.Name}
			ok := c11Judge(c, cs, e, det)
			if e.guard.Returned && (sub == "pre-cancelled" || sub == "cancel-at-hook") {
				cancelJudge(e, f, ctx, det)
			}
			cancel()
			if j != nil {
				j.Remove()
			}
			if !ok {
				recycle()
			}
		}
	}
}

// endlessReader produces a document that never ends: one root and then children forever (after a
// "# root" heading every list line is a child, so no new block ever starts), or roots forever.
type endlessReader struct {
	heading   bool
	n         int
	reads     atomic.Int64
	stop      atomic.Bool
	stopAfter int64
	onRead    func(n int)
}

func (r *endlessReader) Read(p []byte) (int, error) {
	k := r.reads.Add(1)
	if r.stop.Load() || k > r.stopAfter {
		return 0, io.EOF
	}
	line := "- item\n  - child\n"
	if r.heading {
		line = "- a child of the only root\n"
		if r.n == 0 {
			line = "# the only root\n"
		}
	}
	n := copy(p, line)
	r.n += n
	if r.onRead != nil {
		r.onRead(r.n)
	}
	return n, nil
}
