package checks

import (
	"context"
	"sort"
	"strconv"
	"strings"

	"github.com/ddddddO/gtree"

	"gtverif/gen"
	"gtverif/model"
	"gtverif/mon"
)

// C15 — equivalent spellings give byte-identical results. Metamorphic oracle: every spelling
// is compared with the canonical spelling (TAB, '-', LF, final newline) of the same forest;
// no reference model is involved.

func init() {
	Register(&Check{Prop: "C15", Run: runC15, Replay: func(c *Ctx, cs *Case) { evalC15(c, cs) }})
}

func runC15(c *Ctx) bool {
	nMax := c.Pick(5, 6)
	gen.ForEachLabeled(nMax, 2, []string{"a", "b"}, func(i int, f model.Forest) {
		if !c.Mine(i) {
			return
		}
		cs := &Case{Idx: i, Kind: "exhaustive", Seed: gen.New(c.Seed, 15, uint64(i)).Uint64()}
		cs.Depths, cs.Names = gen.Depths(f)
		c.Journal(cs)
		evalC15(c, cs)
		c.Progress(false)
	})
	base := gen.CountLabeled(nMax, 2)
	nRand := c.Pick(3000, 60000)
	for j := 0; j < nRand; j++ {
		idx := base + j
		if !c.Mine(idx) {
			continue
		}
		r := gen.New(c.Seed, 1501, uint64(j))
		classes := []int{gen.ClassPlain, gen.ClassBullet, gen.ClassBlankEdge}
		if r.Chance(1, 3) {
			classes = []int{gen.ClassPlain, gen.ClassBullet, gen.ClassBlankEdge, gen.ClassUnicode, gen.ClassQuoting, gen.ClassExt, gen.ClassCase}
		}
		f := gen.RandForest(r, []int{6, 14, 40}[r.Intn(3)], r.Range(2, 8), classes, []int{0, 20}[r.Intn(2)])
		cs := &Case{Idx: idx, Kind: "random", Seed: r.Uint64()}
		cs.Depths, cs.Names = gen.Depths(f)
		c.Journal(cs)
		evalC15(c, cs)
		c.Progress(false)
	}
	return true
}

// c15Obs is everything observed for one spelling.
type c15Obs struct {
	text, json, yaml, toml, dry string
	errs                        [5]string
	rows                        []model.Row
	walkErr                     string
	massiveJSON                 string // massive mode: JSON lines sorted (order of roots is free), "" when not observed
	verify                      string // "" = nil, else sorted lines of the message
}

func verdictLines(err error) string {
	if err == nil {
		return ""
	}
	ls := strings.Split(err.Error(), "\n")
	sort.Strings(ls)
	return "ERR:" + strings.Join(ls, "\n")
}

func c15Observe(doc string, single bool, verifyDir string, massive bool) c15Obs {
	var ob c15Obs
	if massive {
		o := OutputMD(doc, gtree.WithEncodeJSON(), gtree.WithMassive(context.Background()))
		ls := strings.Split(string(o.Out), "\n")
		sort.Strings(ls)
		ob.massiveJSON = "err=" + errStr(o.Err) + "\n" + strings.Join(ls, "\n")
		if o.Panic != nil {
			ob.massiveJSON = "PANIC"
		}
	}
	run := func(i int, opts ...gtree.Option) string {
		o := OutputMD(doc, opts...)
		if o.Panic != nil {
			ob.errs[i] = "PANIC " + PanicSig(o.Panic, o.Stack)
		} else {
			ob.errs[i] = errStr(o.Err)
		}
		return string(o.Out)
	}
	ob.text = run(0, BranchOptions(1)...)
	ob.json = run(1, gtree.WithEncodeJSON())
	ob.yaml = run(2, gtree.WithEncodeYAML())
	if single {
		ob.toml = run(3, gtree.WithEncodeTOML())
	}
	ob.dry = run(4, gtree.WithDryRun(), gtree.WithFileExtensions([]string{".gz", "b"}))
	rows, o := WalkMD(doc)
	ob.rows = rows
	ob.walkErr = errStr(o.Err)
	if verifyDir != "" {
		vo := Guard(func() error {
			return gtree.VerifyFromMarkdown(MDReader(doc), gtree.WithTargetDir(verifyDir), gtree.WithStrictVerify())
		})
		if vo.Panic != nil {
			ob.verify = "PANIC"
		} else {
			ob.verify = verdictLines(vo.Err)
		}
	}
	return ob
}

func evalC15(c *Ctx, cs *Case) {
	f := gen.FromDepths(cs.Depths, cs.Names)
	r := gen.New(cs.Seed, 4)
	fkey := f.String()
	merged := model.Merge(f)
	nontrivial := merged.Size() >= 2
	pathSafe := true
	for _, n := range cs.Names {
		if strings.ContainsAny(n, "/\x00") || n == "." || n == ".." || len(n) > 200 {
			pathSafe = false
		}
	}
	// roots must be distinct for mkdir comparisons
	seen := map[string]bool{}
	for _, rt := range f {
		if seen[rt.Name] {
			pathSafe = false
		}
		seen[rt.Name] = true
	}
	canon := gen.Spell(f, gen.Canonical)
	// fixed directory for the verify verdict: the canonical document's own Mkdir result with
	// one extra file added and (for larger trees) the deepest last entry removed
	var jail *mon.Jail
	verifyDir := ""
	var canonSnap mon.Snapshot
	if pathSafe {
		var err error
		jail, err = mon.NewJail(c.TmpDir, true)
		if err == nil {
			defer jail.Remove()
			mo := Guard(func() error {
				return gtree.MkdirFromMarkdown(MDReader(canon), gtree.WithTargetDir(jail.Target), gtree.WithFileExtensions([]string{".gz", "b"}))
			})
			if mo.Err == nil && mo.Panic == nil {
				canonSnap, _ = mon.Snap(jail.Target)
				verifyDir = jail.Target
			}
		}
	}
	ref := c15Observe(canon, len(f) == 1, verifyDir, true)

	var sps []gen.Spelling
	all := gen.AllSpellings(cs.Seed)
	if cs.Kind == "exhaustive" && !c.Quick() {
		sps = all
	} else {
		n := 40
		if cs.Kind != "exhaustive" {
			n = 8
		}
		for i := 0; i < n; i++ {
			sps = append(sps, all[r.Intn(len(all))])
		}
	}
	// leading blank line variants (simple mode must ignore them)
	for i := 0; i < 3; i++ {
		s := all[r.Intn(len(all))]
		s.LeadBlank = true
		sps = append(sps, s)
	}
	heading := gen.CanHeading(f)
	mk := 0
	for si, sp := range sps {
		if sp.Heading > 0 && !heading {
			sp.Heading = 0
		}
		if sp.CRLF && si%2 == 1 {
			// every second CRLF spelling ends its lines in LF or CRLF line by line (a file that went
			// through editors of both kinds): still "LF or CRLF" for every single line
			sp.MixedEOL = true
			c.Count("spellings_with_line_ends_mixed_per_line", 1)
		}
		doc := gen.Spell(f, sp)
		// massive mode is observed for every spelling (heading roots and leading blank lines are
		// handled by massive mode since fixes 9345a5a and 75686c8)
		massive := true
		if massive {
			cs.SetDoc(doc)
			cs.Entry = "massive-json"
			c.Rejournal(cs)
			cs.Entry = ""
		}
		ob := c15Observe(doc, len(f) == 1, verifyDir, massive)
		cs.Doc, cs.DocText = nil, ""
		c.Eval(gen.HashString(fkey+"\x00"+sp.String()+strconv.FormatBool(sp.LeadBlank)), nontrivial)
		c.Count("spellings", 1)
		diff := ""
		switch {
		case ob.errs != ref.errs:
			diff = "errors"
		case ob.text != ref.text:
			diff = "text"
		case ob.json != ref.json:
			diff = "json"
		case ob.yaml != ref.yaml:
			diff = "yaml"
		case ob.toml != ref.toml:
			diff = "toml"
		case ob.dry != ref.dry:
			diff = "dryrun"
		case !RowsEqual(ob.rows, ref.rows) || ob.walkErr != ref.walkErr:
			diff = "walk"
		case ob.verify != ref.verify:
			diff = "verify"
		case massive && ob.massiveJSON != ref.massiveJSON:
			diff = "massive-json"
		}
		if diff != "" {
			cs.Entry = diff
			c.Violation(cs, "spelling.differs", diff, map[string]any{"forest": fkey, "spelling": sp.String(), "doc": doc, "canonical_doc": canon,
				"errs": ob.errs, "canonical_errs": ref.errs, "text": trunc(ob.text, 800), "canonical_text": trunc(ref.text, 800), "verify": ob.verify, "canonical_verify": ref.verify})
			cs.Entry = ""
		}
		// directories made: a few spellings per forest in a fresh jail each
		if pathSafe && canonSnap != nil && mk < c.Pick(3, 6) && (sp.Heading > 0 || sp.Bullet != 0 || sp.Unit != "\t") {
			mk++
			j2, err := mon.NewJail(c.TmpDir, true)
			if err == nil {
				mo := Guard(func() error {
					return gtree.MkdirFromMarkdown(MDReader(doc), gtree.WithTargetDir(j2.Target), gtree.WithFileExtensions([]string{".gz", "b"}))
				})
				snap, _ := mon.Snap(j2.Target)
				c.Eval(gen.HashString(fkey+"\x00mkdir"+sp.String()), nontrivial)
				if mo.Err != nil || mo.Panic != nil || len(mon.Diff(canonSnap, snap)) != 0 {
					cs.Entry = "mkdir"
					c.Violation(cs, "spelling.differs", "mkdir", map[string]any{"forest": fkey, "spelling": sp.String(), "doc": doc, "err": errStr(mo.Err), "diff": mon.Diff(canonSnap, snap)})
					cs.Entry = ""
				}
				j2.Remove()
			}
		}
		if nontrivial && c.WantSample(cs.Kind) {
			c.Sample(cs.Kind, map[string]any{"forest": fkey, "spelling": sp.String(), "doc": doc, "canonical_doc": canon, "text": ob.text})
		}
	}
	_ = context.Background
}
