package checks

import (
	"runtime"
	"context"
	"errors"
	"fmt"
	"strconv"
	"strings"

	"github.com/ddddddO/gtree"

	"gtverif/gen"
	"gtverif/model"
	"gtverif/mon"
)

// C03 — programmatically built trees behave exactly like the equivalent Markdown. Relational
// oracle: the From-Root operation and its From-Markdown counterpart are run on the same tree and
// compared (writer bytes, callback sequences, filesystem snapshots, error classes); Add of an
// existing name returns the existing child; nil / non-root nodes are rejected with the sentinel
// errors and nothing is written or created; aliases equal their replacements.

func init() {
	Register(&Check{Prop: "C03", Run: runC03, Replay: func(c *Ctx, cs *Case) { evalC03(c, cs) }})
}

func runC03(c *Ctx) bool {
	nMax := c.Pick(5, 7)
	idx := 0
	// single-root trees: shapes whose only depth-1 node is the first
	for n := 1; n <= nMax; n++ {
		gen.ForEachShape(n, func(depths []int) {
			for i := 1; i < n; i++ {
				if depths[i] == 1 {
					return
				}
			}
			lab := make([]int, n)
			for {
				i := idx
				idx++
				if c.Mine(i) {
					names := make([]string, n)
					for k := range names {
						names[k] = ExtAlphabet[lab[k]]
					}
					cs := &Case{Idx: i, Kind: "exhaustive", Depths: append([]int(nil), depths...), Names: names, Seed: uint64(i)}
					c.Journal(cs)
					evalC03(c, cs)
					c.Progress(false)
				}
				j := n - 1
				for j >= 0 {
					lab[j]++
					if lab[j] < 2 {
						break
					}
					lab[j] = 0
					j--
				}
				if j < 0 {
					break
				}
			}
		})
	}
	nRand := c.Pick(3000, 200000)
	for j := 0; j < nRand; j++ {
		i := idx
		idx++
		if !c.Mine(i) {
			continue
		}
		r := gen.New(c.Seed, 301, uint64(j))
		f := gen.RandForest(r, []int{6, 15, 40}[r.Intn(3)], r.Range(2, 8), allNameClasses, []int{0, 25}[r.Intn(2)])
		depths, names := gen.Depths(f)
		for k := 1; k < len(depths); k++ {
			if depths[k] == 1 {
				depths[k] = 2
			}
		}
		kind := "random"
		if r.Chance(1, 5) {
			kind = "random-lf"
			names[r.Intn(len(names))] = []string{"a\nb", "\n", "x\r", "", "a\n", "l1\nl2\n"}[r.Intn(6)]
		}
		cs := &Case{Idx: i, Kind: kind, Depths: depths, Names: names, Seed: r.Uint64()}
		c.Journal(cs)
		evalC03(c, cs)
		c.Progress(false)
	}
	// wide parents around 32 / 64 / 128 / 256 children with the first, a middle, the last-but-one
	// and the last name written again later, and spines deeper than 64 / 128 levels with
	// alternating last / not-last ancestors
	var shapes [][2]any
	for _, w := range gen.WideSizes {
		d, n := gen.WideDup(w, []int{0, w / 2, w - 2, w - 1})
		shapes = append(shapes, [2]any{d, n})
	}
	for _, depth := range []int{66, 70, 130} {
		d, n := gen.DeepMixed(depth)
		shapes = append(shapes, [2]any{d, n})
	}
	{
		d, n := gen.LongDup() // repeated sibling names of 63 ... 255 bytes
		shapes = append(shapes, [2]any{d, n})
		d, n = gen.TwinSiblings() // different sibling names with equal digests
		shapes = append(shapes, [2]any{d, n})
	}
	for _, sh := range shapes {
		i := idx
		idx++
		if !c.Mine(i) {
			continue
		}
		cs := &Case{Idx: i, Kind: "wide-or-deep", Depths: sh[0].([]int), Names: sh[1].([]string), Seed: uint64(i)}
		c.Journal(cs)
		evalC03(c, cs)
		c.Progress(false)
	}
	return true
}

// buildOrdered builds the tree by Add calls in a seeded order that keeps every node after its
// parent and after its earlier siblings; at seeded points it repeats Adds of existing names and
// checks that the very same node comes back. order 0 = pre-order, 1 = breadth-first, >=2 random.
func buildOrdered(root *model.Node, order int, r *gen.Rand, repeat bool) (g *gtree.Node, identityOK bool, why string) {
	type item struct {
		m      *model.Node
		parent *model.Node
		sib    int
	}
	g = gtree.NewRoot(root.Name)
	built := map[*model.Node]*gtree.Node{root: g}
	done := map[*model.Node]bool{root: true}
	var pending []item
	var collect func(n *model.Node)
	collect = func(n *model.Node) {
		for i, k := range n.Kids {
			pending = append(pending, item{k, n, i})
			collect(k)
		}
	}
	collect(root)
	if order == 1 {
		// breadth-first
		var bfs []item
		q := []*model.Node{root}
		for len(q) > 0 {
			n := q[0]
			q = q[1:]
			for i, k := range n.Kids {
				bfs = append(bfs, item{k, n, i})
				q = append(q, k)
			}
		}
		pending = bfs
	}
	identityOK = true
	ready := func(it item) bool {
		if !done[it.parent] {
			return false
		}
		return it.sib == 0 || done[it.parent.Kids[it.sib-1]]
	}
	for len(pending) > 0 {
		pick := 0
		if order >= 2 {
			var cand []int
			for i, it := range pending {
				if ready(it) {
					cand = append(cand, i)
				}
			}
			pick = cand[r.Intn(len(cand))]
		}
		it := pending[pick]
		pending = append(pending[:pick], pending[pick+1:]...)
		gp := built[it.parent]
		// an earlier sibling with the same name? then Add must return that node
		var same *gtree.Node
		for _, s := range it.parent.Kids[:it.sib] {
			if s.Name == it.m.Name {
				same = built[s]
				break
			}
		}
		gn := gp.Add(it.m.Name)
		if same != nil && gn != same {
			identityOK, why = false, "Add of an existing name returned a different node: "+strconv.Quote(it.m.Name)
		}
		built[it.m] = gn
		done[it.m] = true
		if repeat && r.Chance(1, 3) {
			// repeated Add of a name that exists under some already built parent
			var ps []*model.Node
			for p := range done {
				if len(p.Kids) > 0 && done[p.Kids[0]] {
					ps = append(ps, p)
				}
			}
			if len(ps) > 0 {
				// deterministic choice: the parent of the node just added
				p := it.parent
				k := p.Kids[r.Intn(it.sib+1)]
				if done[k] {
					if again := built[p].Add(k.Name); again != built[k] {
						// built[k] may itself be the merged earlier sibling; compare with the first of that name
						first := built[k]
						for _, s := range p.Kids {
							if s.Name == k.Name {
								first = built[s]
								break
							}
						}
						if again != first {
							identityOK, why = false, "repeated Add returned a different node: "+strconv.Quote(k.Name)
						}
					}
				}
			}
		}
	}
	return
}

func evalC03(c *Ctx, cs *Case) {
	f := gen.FromDepths(cs.Depths, cs.Names)
	root := f[0]
	merged := model.Merge(f)
	mroot := merged[0]
	fkey := f.String()
	r := gen.New(cs.Seed, 33)
	spellable := gen.CanSpell(f)
	nontrivial := mroot.Size() >= 3
	doc := ""
	if spellable {
		sp := gen.Canonical
		if cs.Kind != "exhaustive" {
			sp = gen.RandSpelling(r)
			if !gen.CanHeading(f) {
				sp.Heading = 0
			}
		}
		doc = gen.Spell(f, sp)
	}
	viol := func(entry, clause, sig string, det map[string]any) {
		cs.Entry = entry
		det["tree"] = fkey
		det["doc"] = doc
		c.Violation(cs, clause, sig, det)
		cs.Entry = ""
	}
	orders := []int{0, 1, 2, 3}
	if cs.Kind != "exhaustive" {
		orders = []int{r.Intn(2), 2}
	}
	// reference results from Markdown
	type obs struct {
		text      [6]string
		enc       [3]string
		encErr    [3]bool
		rows      []model.Row
		iterRows  []model.Row
		dry       string
		errTextNE bool
	}
	branches := []int{0, 3, 4, 6, 7, 8}
	encOpts := []gtree.Option{gtree.WithEncodeJSON(), gtree.WithEncodeYAML(), gtree.WithEncodeTOML()}
	encNames := []string{"json", "yaml", "toml"}
	var md obs
	if spellable {
		for i, bi := range branches {
			md.text[i] = string(OutputMD(doc, BranchOptions(bi)...).Out)
		}
		for i := range encOpts {
			o := OutputMD(doc, encOpts[i])
			md.enc[i], md.encErr[i] = string(o.Out), o.Err != nil
		}
		md.rows, _ = WalkMD(doc, BranchOptions(3)...)
	}
	var first *obs
	for _, order := range orders {
		// seeded topological orders are taken over the merged tree: with repeated sibling names the
		// child order of a merged node is the order of its first Adds, which an arbitrary
		// interleaving of the duplicates' subtrees would legitimately change
		src := root
		if order >= 2 {
			src = mroot
		}
		g, idOK, why := buildOrdered(src, order, gen.New(cs.Seed, 34, uint64(order)), true)
		c.Eval(gen.HashString(fkey+"\x00build"+strconv.Itoa(order)), nontrivial)
		if !idOK {
			viol("Add", "add.not-idempotent", "", map[string]any{"order": order, "why": why})
		}
		var cur obs
		for i, bi := range branches {
			w := mon.NewRecWriter()
			o := Guard(func() error { return gtree.OutputFromRoot(w, g, BranchOptions(bi)...) })
			cur.text[i] = string(w.Bytes())
			if o.Panic != nil || o.Err != nil {
				cur.errTextNE = true
				viol("OutputFromRoot[text]", "fromroot.error", errStr(o.Err), map[string]any{"order": order, "panic": o.Panic != nil})
			}
			// alias
			w2 := mon.NewRecWriter()
			_ = Guard(func() error { return gtree.OutputProgrammably(w2, g, BranchOptions(bi)...) })
			if string(w2.Bytes()) != cur.text[i] {
				viol("OutputProgrammably(alias)", "alias.differs", "text", map[string]any{"alias": string(w2.Bytes()), "func": cur.text[i]})
			}
			c.Eval(gen.HashString(fkey+"\x00text"+strconv.Itoa(order*10+bi)), nontrivial)
		}
		for i := range encOpts {
			w := mon.NewRecWriter()
			o := Guard(func() error { return gtree.OutputFromRoot(w, g, encOpts[i]) })
			cur.enc[i], cur.encErr[i] = string(w.Bytes()), o.Err != nil || o.Panic != nil
			w2 := mon.NewRecWriter()
			_ = Guard(func() error { return gtree.OutputProgrammably(w2, g, encOpts[i]) })
			if string(w2.Bytes()) != cur.enc[i] {
				viol("OutputProgrammably(alias)", "alias.differs", encNames[i], map[string]any{})
			}
			c.Eval(gen.HashString(fkey+"\x00enc"+strconv.Itoa(order*10+i)), nontrivial)
		}
		rec := NewRowRec()
		_ = Guard(func() error { return gtree.WalkFromRoot(g, rec.Callback, BranchOptions(3)...) })
		cur.rows = rec.Rows
		rec2 := NewRowRec()
		_ = Guard(func() error { return gtree.WalkProgrammably(g, rec2.Callback, BranchOptions(3)...) })
		if !RowsEqual(rec2.Rows, cur.rows) {
			viol("WalkProgrammably(alias)", "alias.differs", "walk", map[string]any{})
		}
		// the caller keeps its options in ONE slice - branch strings, then an encode option - and passes
		// the branch strings only (all[:2]...) to the walks; the full slice is used afterwards
		all := append(BranchOptions(3), gtree.WithEncodeJSON(), nil)[:3]
		_ = Guard(func() error {
			for wn, err := range gtree.WalkIterFromRoot(g, all[:2]...) {
				if err != nil {
					return err
				}
				cur.iterRows = append(cur.iterRows, model.Row{Row: wn.Row(), Branch: wn.Branch(), Name: wn.Name(), Level: int(wn.Level()), Path: wn.Path(), HasChild: wn.HasChild()})
			}
			return nil
		})
		var aliasIter []model.Row
		_ = Guard(func() error {
			for wn, err := range gtree.WalkIterProgrammably(g, all[:2]...) {
				if err != nil {
					return err
				}
				aliasIter = append(aliasIter, model.Row{Row: wn.Row(), Branch: wn.Branch(), Name: wn.Name(), Level: int(wn.Level()), Path: wn.Path(), HasChild: wn.HasChild()})
			}
			return nil
		})
		_ = Guard(func() error { return gtree.WalkFromRoot(g, func(*gtree.WalkerNode) error { return nil }, all[:2]...) })
		{
			wj := mon.NewRecWriter()
			oj := Guard(func() error { return gtree.OutputFromRoot(wj, g, all...) })
			c.Count("calls_with_the_full_option_slice_after_prefix_calls", 1)
			if oj.Panic != nil || oj.Err != nil || string(wj.Bytes()) != cur.enc[0] {
				viol("OutputFromRoot[json]", "options.callers-slice-written", "", map[string]any{"order": order, "with_the_full_slice": trunc(string(wj.Bytes()), 300), "with_the_json_option_alone": trunc(cur.enc[0], 300),
					"note": "branch strings and WithEncodeJSON sit in one slice; walks were given its first two elements; the full slice no longer gives the JSON output"})
			}
		}
		// leaving the iterator after k+1 visits yields the first k+1 rows of the callback walk
		for _, k := range []int{0, len(cur.rows) / 2} {
			if k >= len(cur.rows)-1 {
				continue
			}
			var part []model.Row
			po := Guard(func() error {
				for wn, err := range gtree.WalkIterFromRoot(g, BranchOptions(3)...) {
					if err != nil {
						return err
					}
					part = append(part, model.Row{Row: wn.Row(), Branch: wn.Branch(), Name: wn.Name(), Level: int(wn.Level()), Path: wn.Path(), HasChild: wn.HasChild()})
					if len(part) == k+1 {
						break
					}
				}
				return nil
			})
			c.Eval(gen.HashString(fkey+"\x00iterprefix"+strconv.Itoa(order*100+k)), nontrivial)
			if po.Panic != nil || po.Err != nil || !RowsEqual(part, cur.rows[:k+1]) {
				viol("WalkIterFromRoot", "fromroot.iter-prefix-differs", "", map[string]any{"order": order, "k": k, "panic": fmt.Sprint(po.Panic), "err": errStr(po.Err)})
			}
		}
		c.Eval(gen.HashString(fkey+"\x00walk"+strconv.Itoa(order)), nontrivial)
		if !RowsEqual(cur.iterRows, cur.rows) {
			viol("WalkIterFromRoot", "fromroot.iter-differs-from-walk", "", map[string]any{"order": order})
		}
		if !RowsEqual(aliasIter, cur.iterRows) {
			viol("WalkIterProgrammably(alias)", "alias.differs", "iter", map[string]any{})
		}
		// vs Markdown
		if spellable {
			for i := range branches {
				if cur.text[i] != md.text[i] {
					viol("OutputFromRoot[text]", "fromroot.differs-from-markdown", "text", map[string]any{"order": order, "branch": branches[i], "root": cur.text[i], "markdown": md.text[i]})
					break
				}
			}
			for i := range encOpts {
				if i == 2 && false {
					continue
				}
				if cur.enc[i] != md.enc[i] || cur.encErr[i] != md.encErr[i] {
					viol("OutputFromRoot["+encNames[i]+"]", "fromroot.differs-from-markdown", encNames[i], map[string]any{"order": order, "root": trunc(cur.enc[i], 800), "markdown": trunc(md.enc[i], 800)})
				}
			}
			// Path is compared only for names that are path elements (path.Join cleans others)
			a, b := cur.rows, md.rows
			pathsOK := true
			for _, n := range cs.Names {
				if !pathElem(n) {
					pathsOK = false
				}
			}
			if !pathsOK {
				a, b = append([]model.Row(nil), a...), append([]model.Row(nil), b...)
				for i := range a {
					a[i].Path = ""
				}
				for i := range b {
					b[i].Path = ""
				}
			}
			if !RowsEqual(a, b) {
				viol("WalkFromRoot", "fromroot.differs-from-markdown", "walk", map[string]any{"order": order})
			}
		}
		// massive mode with a meaningless encode option: the walk must still see the full rows
		if spellable && order == orders[0] {
			// on a FRESH tree and with branch strings no earlier call used (stale branches of an
			// earlier call would otherwise hide a grower that does nothing)
			mrec := NewRowRec()
			g2 := BuildRoot(root)
			mo := Guard(func() error {
				return gtree.WalkFromRoot(g2, mrec.Callback, append(BranchOptions(5), gtree.WithMassive(context.Background()), gtree.WithEncodeJSON())...)
			})
			c.Eval(gen.HashString(fkey+"\x00walkmassive"), nontrivial)
			wantM := model.Rows(model.Forest{mroot}, BranchTuples[5])
			gotM := append([]model.Row(nil), mrec.Rows...)
			for i := range wantM {
				wantM[i].Path = ""
			}
			for i := range gotM {
				gotM[i].Path = ""
			}
			if mo.Panic != nil || mo.Err != nil || !RowsEqual(gotM, wantM) {
				viol("WalkFromRoot[massive+stray json]", "fromroot.massive-differs", "walk", map[string]any{"err": errStr(mo.Err)})
			}
			mw := mon.NewRecWriter()
			mo2 := Guard(func() error {
				return gtree.OutputFromRoot(mw, g, append(BranchOptions(3), gtree.WithMassive(context.Background()))...)
			})
			if mo2.Panic != nil || mo2.Err != nil || string(mw.Bytes()) != cur.text[1] {
				viol("OutputFromRoot[massive]", "fromroot.massive-differs", "text", map[string]any{"err": errStr(mo2.Err), "massive": trunc(string(mw.Bytes()), 400), "simple": trunc(cur.text[1], 400)})
			}
		}
		// all Add orders give the same tree
		if first == nil {
			cp := cur
			first = &cp
		} else if cur.text != first.text || cur.enc != first.enc || !RowsEqual(cur.rows, first.rows) {
			viol("Add", "add.order-changes-result", "", map[string]any{"order": order, "got": cur.text[0], "first": first.text[0]})
		}
	}
	// filesystem operations: mkdir / verify / dry-run in fresh jails with the same pre-state
	fsOK := spellable
	for _, n := range cs.Names {
		if strings.ContainsAny(n, "\x00") || len(n) > 200 {
			fsOK = false
		}
	}
	if fsOK {
		c03FS(c, cs, f, root, doc, fkey, r, viol)
		c03Hostile(c, cs, root, fkey, r, viol)
		c03BadFile(c, cs, root, doc, fkey, viol)
		c03StrayPairs(c, root, gen.Spell(model.Forest{root}, gen.Canonical), fkey, "valid-names", int(cs.Seed%4), viol)
	}
	// invalid roots
	c03Invalid(c, cs, root, fkey, viol)
	if nontrivial && spellable && c.WantSample(cs.Kind) {
		c.Sample(cs.Kind, map[string]any{"tree": fkey, "doc": doc, "from_root_text": first.text[0], "add_orders": orders})
	}
}

func c03FS(c *Ctx, cs *Case, f model.Forest, root *model.Node, doc, fkey string, r *gen.Rand, viol func(entry, clause, sig string, det map[string]any)) {
	ei := r.Intn(len(ExtLists))
	if cs.Kind == "exhaustive" {
		ei = int(cs.Seed % uint64(len(ExtLists)))
	}
	exts := ExtLists[ei]
	preexist := cs.Kind != "exhaustive" && r.Chance(1, 5) || cs.Kind == "exhaustive" && cs.Seed%5 == 0
	errClass := func(e error) string {
		switch {
		case e == nil:
			return "nil"
		case errors.Is(e, gtree.ErrExistPath):
			return "ErrExistPath"
		}
		return "error"
	}
	// mkdir: each family in its own jail
	var snaps [2]mon.Snapshot
	var errs [2]string
	for fam := 0; fam < 2; fam++ {
		j, err := mon.NewJail(c.TmpDir, true)
		if err != nil {
			return
		}
		if preexist && fsSafeName(root.Name) {
			mkdirCall(mkdirRoutes[0], "- "+root.Name+"\n", nil, fsOpts(j.Target, nil, false, false, false, false))
		}
		var o Outcome
		if fam == 0 {
			// the tree has been used before (output, walk, iterator) when it is handed to Mkdir
			g := BuildRoot(root)
			_ = Guard(func() error { return gtree.OutputFromRoot(mon.NewRecWriter(), g) })
			_ = Guard(func() error { return gtree.WalkFromRoot(g, func(*gtree.WalkerNode) error { return nil }) })
			_ = Guard(func() error {
				for range gtree.WalkIterFromRoot(g) {
				}
				return nil
			})
			o = Guard(func() error { return gtree.MkdirFromRoot(g, fsOpts(j.Target, exts, ei != 0, false, false, false)...) })
		} else {
			o = mkdirCall(mkdirRoutes[0], doc, nil, fsOpts(j.Target, exts, ei != 0, false, false, false))
		}
		snaps[fam], _ = mon.Snap(j.Target)
		errs[fam] = errClass(o.Err)
		if o.Panic != nil {
			errs[fam] = "panic"
		}
		// verify both families against family 0's directory later
		if fam == 0 {
			for _, strict := range []bool{false, true} {
				vo1 := verifyCall(verifyRoutes[1], "", root, fsOpts(j.Target, nil, false, false, false, strict))
				vo2 := verifyCall(verifyRoutes[0], doc, nil, fsOpts(j.Target, nil, false, false, false, strict))
				c.Eval(gen.HashString(fkey+"\x00verify"+strconv.FormatBool(strict)), true)
				if verdictLines(vo1.Err) != verdictLines(vo2.Err) || (vo1.Panic != nil) != (vo2.Panic != nil) {
					viol("VerifyFromRoot", "fromroot.differs-from-markdown", "verify", map[string]any{"strict": strict, "root_err": errStr(vo1.Err), "markdown_err": errStr(vo2.Err), "ext": exts})
				}
			}
		}
		j.Remove()
	}
	c.Eval(gen.HashString(fkey+"\x00mkdir"+strconv.Itoa(ei)+strconv.FormatBool(preexist)), true)
	c.Count("fs_cases", 1)
	if errs[0] != errs[1] || len(mon.Diff(snaps[0], snaps[1])) != 0 {
		viol("MkdirFromRoot", "fromroot.differs-from-markdown", "mkdir", map[string]any{"ext": exts, "root_err": errs[0], "markdown_err": errs[1], "diff": mon.Diff(snaps[1], snaps[0]), "preexist": preexist})
	}
	// dry-run: report of MkdirFromRoot+dry-run vs Output+dry-run of the Markdown (the CLI route)
	rep := captureColorOutput(func() {
		mkdirCall(mkdirRoutes[1], "", root, fsOpts("", exts, ei != 0, true, false, false))
	})
	o := OutputMD(doc, fsOpts("", exts, ei != 0, true, false, false)...)
	c.Eval(gen.HashString(fkey+"\x00dry"+strconv.Itoa(ei)), true)
	if o.Err == nil && string(rep) != string(o.Out) {
		viol("MkdirFromRoot[dryrun]", "fromroot.differs-from-markdown", "dryrun-report", map[string]any{"ext": exts, "root": trunc(string(rep), 600), "markdown": trunc(string(o.Out), 600)})
	}
}

func c03Invalid(c *Ctx, cs *Case, root *model.Node, fkey string, viol func(entry, clause, sig string, det map[string]any)) {
	g := BuildRoot(root)
	// every non-root node reachable by Add of existing names
	var nonRoots []*gtree.Node
	var walk func(gn *gtree.Node, m *model.Node)
	walk = func(gn *gtree.Node, m *model.Node) {
		for _, k := range m.Kids {
			ch := gn.Add(k.Name)
			nonRoots = append(nonRoots, ch)
			walk(ch, k)
		}
	}
	walk(g, root)
	if len(nonRoots) > 3 {
		nonRoots = []*gtree.Node{nonRoots[0], nonRoots[len(nonRoots)/2], nonRoots[len(nonRoots)-1]}
	}
	type bad struct {
		n    *gtree.Node
		want error
		name string
	}
	bads := []bad{{nil, gtree.ErrNilNode, "nil"}}
	for _, n := range nonRoots {
		bads = append(bads, bad{n, gtree.ErrNotRoot, "non-root"})
	}
	// nodes that did not come from NewRoot: the zero value, alone and with children added to it
	zeroWithKids := new(gtree.Node)
	zeroWithKids.Add("kid").Add("grandkid")
	bads = append(bads, bad{new(gtree.Node), gtree.ErrNotRoot, "zero-value node"}, bad{zeroWithKids, gtree.ErrNotRoot, "zero-value node with children"})
	j, err := mon.NewJail(c.TmpDir, true)
	if err != nil {
		return
	}
	defer j.Remove()
	before := j.Snap()
	for _, b := range bads {
		type call struct {
			name string
			run  func(w *mon.RecWriter) error
		}
		cb := func(*gtree.WalkerNode) error { return errors.New("callback must not run") }
		iter1 := func(seq func(yield func(*gtree.WalkerNode, error) bool)) error {
			n := 0
			var got error
			for wn, err := range seq {
				n++
				if wn != nil {
					return errors.New("iterator yielded a node")
				}
				got = err
			}
			if n != 1 {
				return errors.New("iterator yielded " + strconv.Itoa(n) + " times")
			}
			return got
		}
		calls := []call{
			{"OutputFromRoot", func(w *mon.RecWriter) error { return gtree.OutputFromRoot(w, b.n) }},
			{"OutputFromRoot[json]", func(w *mon.RecWriter) error { return gtree.OutputFromRoot(w, b.n, gtree.WithEncodeJSON()) }},
			{"OutputProgrammably(alias)", func(w *mon.RecWriter) error { return gtree.OutputProgrammably(w, b.n) }},
			{"MkdirFromRoot", func(w *mon.RecWriter) error { return gtree.MkdirFromRoot(b.n, gtree.WithTargetDir(j.Target)) }},
			{"MkdirFromRoot[dryrun]", func(w *mon.RecWriter) error {
				return gtree.MkdirFromRoot(b.n, gtree.WithTargetDir(j.Target), gtree.WithDryRun())
			}},
			{"MkdirProgrammably(alias)", func(w *mon.RecWriter) error { return gtree.MkdirProgrammably(b.n, gtree.WithTargetDir(j.Target)) }},
			{"VerifyFromRoot", func(w *mon.RecWriter) error { return gtree.VerifyFromRoot(b.n, gtree.WithTargetDir(j.Target)) }},
			{"VerifyProgrammably(alias)", func(w *mon.RecWriter) error { return gtree.VerifyProgrammably(b.n, gtree.WithTargetDir(j.Target)) }},
			{"WalkFromRoot", func(w *mon.RecWriter) error { return gtree.WalkFromRoot(b.n, cb) }},
			{"WalkProgrammably(alias)", func(w *mon.RecWriter) error { return gtree.WalkProgrammably(b.n, cb) }},
			{"WalkIterFromRoot", func(w *mon.RecWriter) error { return iter1(gtree.WalkIterFromRoot(b.n)) }},
			{"WalkIterProgrammably(alias)", func(w *mon.RecWriter) error { return iter1(gtree.WalkIterProgrammably(b.n)) }},
		}
		for _, cl := range calls {
			w := mon.NewRecWriter()
			var o Outcome
			col := captureColorOutput(func() { o = Guard(func() error { return cl.run(w) }) })
			c.Eval(gen.HashString(fkey+"\x00invalid"+b.name+cl.name), true)
			c.Count("invalid_root_calls", 1)
			c.SetAdd("entries", cl.name)
			det := map[string]any{"kind": b.name, "err": errStr(o.Err)}
			switch {
			case o.Panic != nil:
				det["stack"] = o.Stack
				viol(cl.name, "panic", PanicSig(o.Panic, o.Stack), det)
			case !errors.Is(o.Err, b.want):
				viol(cl.name, "invalid-root.wrong-error", b.name, det)
			case len(w.Bytes()) != 0 || len(col) != 0:
				viol(cl.name, "invalid-root.wrote-bytes", b.name, det)
			}
		}
	}
	if d := mon.Diff(before, j.Snap()); len(d) != 0 {
		viol("*FromRoot", "invalid-root.changed-filesystem", "", map[string]any{"diff": d})
	}
}

var c03Quiet = mon.NewLeakMonitor()

// c03Hostile: the same tree with ONE name replaced by something that is not a single path
// element, handed to mkdir and verify through both families, in simple and in massive mode.
// Both families must make the same accept/reject decision and leave the same filesystem.
func c03Hostile(c *Ctx, cs *Case, root *model.Node, fkey string, r *gen.Rand, viol func(entry, clause, sig string, det map[string]any)) {
	depths, names := gen.Depths(model.Forest{root})
	pos := r.Intn(len(names))
	bad := []string{"sub/leaf", "..", "a//b", "./x"}[r.Intn(4)]
	if pos > 0 && r.Chance(1, 4) {
		bad = "."
	}
	nn := append([]string(nil), names...)
	nn[pos] = bad
	h := gen.FromDepths(depths, nn)
	if len(h) != 1 {
		return
	}
	hdoc := gen.Spell(h, gen.Canonical)
	for _, op := range []string{"mkdir", "verify"} {
		for _, massive := range []bool{false, true} {
			mode := map[bool]string{true: "massive", false: "simple"}[massive]
			var errs [2]error
			var pans [2]any
			var snaps [2]mon.Snapshot
			for fam := 0; fam < 2; fam++ {
				j, err := mon.NewJail(c.TmpDir, true)
				if err != nil {
					return
				}
				opts := fsOpts(j.Target, nil, false, false, massive, false)
				rt := 1 - fam // fam 0 = From-Root
				base := runtime.NumGoroutine()
				var o Outcome
				if op == "mkdir" {
					o = mkdirCall(mkdirRoutes[rt], hdoc, h[0], opts)
				} else {
					o = verifyCall(verifyRoutes[rt], hdoc, h[0], opts)
				}
				if massive {
					c03Quiet.Quiesce(base)
				}
				errs[fam], pans[fam] = o.Err, o.Panic
				snaps[fam], _ = mon.Snap(j.Target)
				j.Remove()
			}
			c.Eval(gen.HashString(fkey+"\x00hostile"+op+mode+bad+strconv.Itoa(pos)), true)
			c.Count("hostile_name_pairs", 1)
			entry := map[string]string{"mkdir": "MkdirFromRoot", "verify": "VerifyFromRoot"}[op] + "[" + mode + "]"
			det := map[string]any{"tree": gen.Spell(h, gen.Canonical), "bad_name": bad, "position": pos, "root_err": errStr(errs[0]), "markdown_err": errStr(errs[1])}
			switch {
			case pans[0] != nil || pans[1] != nil:
				viol(entry, "panic", "hostile-name", det)
			case (errs[0] == nil) != (errs[1] == nil):
				viol(entry, "fromroot.differs-from-markdown", op+"/invalid-name", det)
			case !massive && len(mon.Diff(snaps[0], snaps[1])) != 0:
				det["diff"] = mon.Diff(snaps[1], snaps[0])
				viol(entry, "fromroot.differs-from-markdown", op+"/invalid-name/filesystem", det)
			}
		}
	}
	c03StrayPairs(c, h[0], hdoc, fkey+"\x00"+bad+strconv.Itoa(pos), "invalid-name", pos, viol)
}

// c03StrayPairs: output and walk with options that belong to another operation (dry run, file
// extensions, an encode option for a walk), through both families, simple and massive. Whatever
// such an option does - dry run validates the names and turns the output into the report - it
// does the same for a tree built with Add as for its Markdown spelling.
func c03StrayPairs(c *Ctx, tree *model.Node, doc, key, tag string, sel int, viol func(entry, clause, sig string, det map[string]any)) {
	ops := []string{"output+dryrun", "output+dryrun+json", "walk+dryrun", "walk+ext+json", "output+dryrun+ext"}
	for oi, op := range ops {
		if (oi+sel)%2 == 1 && tag == "valid-names" {
			continue // half of them per valid tree, all of them for the tree with the invalid name
		}
		for _, massive := range []bool{false, true} {
			mode := map[bool]string{true: "massive", false: "simple"}[massive]
			var errs [2]error
			var outs [2]string
			var pans [2]any
			for fam := 0; fam < 2; fam++ {
				var opts []gtree.Option
				if strings.Contains(op, "dryrun") {
					opts = append(opts, gtree.WithDryRun())
				}
				if strings.Contains(op, "json") {
					opts = append(opts, gtree.WithEncodeJSON())
				}
				if strings.Contains(op, "ext") {
					opts = append(opts, gtree.WithFileExtensions([]string{".go", ".md", "b"}))
				}
				if massive {
					opts = append(opts, gtree.WithMassive(context.Background()))
				}
				w := mon.NewRecWriter()
				rec := NewRowRec()
				base := runtime.NumGoroutine()
				var o Outcome
				col := captureColorOutput(func() {
					o = Guard(func() error {
						switch {
						case strings.HasPrefix(op, "output") && fam == 0:
							return gtree.OutputFromRoot(w, BuildRoot(tree), opts...)
						case strings.HasPrefix(op, "output"):
							return gtree.OutputFromMarkdown(w, MDReader(doc), opts...)
						case fam == 0:
							return gtree.WalkFromRoot(BuildRoot(tree), rec.Callback, opts...)
						}
						return gtree.WalkFromMarkdown(MDReader(doc), rec.Callback, opts...)
					})
				})
				if massive {
					c03Quiet.Quiesce(base)
				}
				rec.mu.Lock()
				rows := ""
				for _, rw := range rec.Rows {
					rows += rw.Row + "\n"
				}
				rec.mu.Unlock()
				errs[fam], pans[fam] = o.Err, o.Panic
				outs[fam] = string(w.Bytes()) + "\x00" + string(col) + "\x00" + rows
			}
			c.Eval(gen.HashString(key+"\x00stray"+op+mode+tag), true)
			c.Count("stray_option_pairs."+tag, 1)
			entry := map[bool]string{true: "OutputFromRoot", false: "WalkFromRoot"}[strings.HasPrefix(op, "output")] + "[" + op + "," + mode + "]"
			det := map[string]any{"tree": doc, "root_err": errStr(errs[0]), "markdown_err": errStr(errs[1]), "root": trunc(outs[0], 400), "markdown": trunc(outs[1], 400)}
			switch {
			case pans[0] != nil || pans[1] != nil:
				viol(entry, "panic", "stray-option", det)
			case (errs[0] == nil) != (errs[1] == nil):
				viol(entry, "fromroot.differs-from-markdown", "stray-option/"+tag+"/verdict", det)
			case errs[0] == nil && outs[0] != outs[1]:
				viol(entry, "fromroot.differs-from-markdown", "stray-option/"+tag+"/result", det)
			}
		}
	}
}

// c03BadFile: both families write to the same kind of failing *os.File; they must agree on
// whether that is an error.
func c03BadFile(c *Ctx, cs *Case, root *model.Node, doc, fkey string, viol func(entry, clause, sig string, det map[string]any)) {
	kind := int(cs.Seed % numBadFiles)
	for mi, opts := range [][]gtree.Option{nil, BranchOptions(3), {gtree.WithEncodeJSON()}} {
		var errs [2]error
		name := ""
		for fam := 0; fam < 2; fam++ {
			bf, n, cleanup := badFile(c.TmpDir, kind)
			if bf == nil {
				return
			}
			name = n
			var o Outcome
			if fam == 0 {
				g := BuildRoot(root)
				o = Guard(func() error { return gtree.OutputFromRoot(bf, g, opts...) })
			} else {
				o = Guard(func() error { return gtree.OutputFromMarkdown(bf, MDReader(doc), opts...) })
			}
			cleanup()
			if o.Panic != nil {
				viol("OutputFromRoot", "panic", "failing-file", map[string]any{"file": n, "stack": o.Stack})
				return
			}
			errs[fam] = o.Err
		}
		c.Eval(gen.HashString(fkey+"\x00badfile"+strconv.Itoa(mi)+name), true)
		c.Count("failing_file_pairs", 1)
		if (errs[0] == nil) != (errs[1] == nil) {
			viol("OutputFromRoot", "fromroot.differs-from-markdown", "failing-file", map[string]any{"file": name, "mode": mi, "root_err": errStr(errs[0]), "markdown_err": errStr(errs[1])})
		}
	}
}
