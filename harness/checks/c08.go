package checks

import (
	"syscall"
	"os"
	"path/filepath"
	"runtime"
	"sort"
	"strconv"
	"strings"

	"gtverif/gen"
	"gtverif/model"
	"gtverif/mon"
)

// C08 — verify reports exactly the differences. Oracle: model missing/extra sets against the
// real directory state; the error text is parsed by its two documented headings.

var c08Quiet = mon.NewLeakMonitor()

func init() {
	Register(&Check{Prop: "C08", Run: runC08, Replay: func(c *Ctx, cs *Case) { evalC08(c, cs) }})
}

var c08Classes = []int{gen.ClassPlain, gen.ClassExt, gen.ClassUnicode, gen.ClassQuoting, gen.ClassBullet, gen.ClassCase}

func c08Safe(f model.Forest) {
	fsSafeForest(f)
	var fix func(n *model.Node)
	fix = func(n *model.Node) {
		n.Name = strings.Map(func(r rune) rune {
			if r < 0x20 || r == 0x7f {
				return '_'
			}
			return r
		}, n.Name)
		for _, k := range n.Kids {
			fix(k)
		}
	}
	for _, r := range f {
		fix(r)
	}
	gen.DistinctRoots(f)
}

func runC08(c *Ctx) bool {
	nMax := c.Pick(5, 6)
	gen.ForEachLabeled(nMax, 2, ExtAlphabet, func(i int, f model.Forest) {
		if !c.Mine(i) {
			return
		}
		gen.DistinctRoots(f)
		cs := &Case{Idx: i, Kind: "exhaustive", Seed: uint64(i)}
		cs.Depths, cs.Names = gen.Depths(f)
		c.Journal(cs)
		evalC08(c, cs)
		c.Progress(false)
	})
	base := gen.CountLabeled(nMax, 2)
	nRand := c.Pick(2500, 50000)
	for j := 0; j < nRand; j++ {
		idx := base + j
		if !c.Mine(idx) {
			continue
		}
		r := gen.New(c.Seed, 801, uint64(j))
		f := gen.RandForest(r, []int{5, 12, 30}[r.Intn(3)], r.Range(2, 7), c08Classes, []int{0, 20}[r.Intn(2)])
		c08Safe(f)
		kind := "random"
		if len(f) >= 2 && j%5 == 0 {
			// two roots with the SAME name but different subtrees: both are verified against the same directory
			f[len(f)-1].Name = f[0].Name
			kind = "random-equal-roots"
		}
		cs := &Case{Idx: idx, Kind: kind, Seed: r.Uint64()}
		cs.Depths, cs.Names = gen.Depths(f)
		c.Journal(cs)
		evalC08(c, cs)
		c.Progress(false)
	}
	return true
}

// parseVerifyErr splits the error text into its two lists.
func parseVerifyErr(msg string) (extra, missing []string, ok bool) {
	const hE, hM = "Extra paths exist:", "Required paths does not exist:"
	cur := ""
	for _, l := range strings.Split(msg, "\n") {
		switch {
		case l == hE:
			cur = "e"
		case l == hM:
			cur = "m"
		case strings.HasPrefix(l, "\t") && cur == "e":
			extra = append(extra, l[1:])
		case strings.HasPrefix(l, "\t") && cur == "m":
			missing = append(missing, l[1:])
		default:
			return nil, nil, false
		}
	}
	return extra, missing, true
}

// state of one case's directory
type c08State struct {
	present map[string]bool // node paths present (relative to target)
	isFile  map[string]bool // created as regular file
	extras  []string        // extra entries (relative to target), files or dirs (dirs end with "/")
}

func (st *c08State) materialise(target string) {
	var ps []string
	for p := range st.present {
		ps = append(ps, p)
	}
	sort.Strings(ps)
	for _, p := range ps {
		full := filepath.Join(target, p)
		if st.isFile[p] {
			os.MkdirAll(filepath.Dir(full), 0o755)
			os.WriteFile(full, nil, 0o644)
		} else {
			os.MkdirAll(full, 0o755)
		}
	}
	for _, e := range st.extras {
		full := filepath.Join(target, e)
		if strings.HasSuffix(e, "/") {
			os.MkdirAll(full, 0o755)
		} else if strings.HasSuffix(e, "@") {
			// an extra entry that is a symbolic link: dangling, or a loop back to its own directory
			os.MkdirAll(filepath.Dir(full), 0o755)
			os.Symlink([]string{"no-such-destination", "."}[len(e)%2], strings.TrimSuffix(full, "@"))
		} else {
			os.MkdirAll(filepath.Dir(full), 0o755)
			os.WriteFile(full, []byte("extra"), 0o644)
		}
	}
}

// actualUnder lists everything that really exists under target/root (relative to target).
func actualUnder(target, root string) (map[string]bool, bool, bool) {
	out := map[string]bool{}
	info, err := os.Lstat(filepath.Join(target, root))
	if err != nil {
		return out, false, false
	}
	if !info.IsDir() {
		out[root] = true
		return out, true, true
	}
	filepath.Walk(filepath.Join(target, root), func(p string, _ os.FileInfo, err error) error {
		if err != nil {
			return nil
		}
		rel, _ := filepath.Rel(target, p)
		out[filepath.ToSlash(rel)] = true
		return nil
	})
	return out, true, false
}

func evalC08(c *Ctx, cs *Case) {
	f := gen.FromDepths(cs.Depths, cs.Names)
	merged := model.Merge(f)
	fkey := f.String()
	doc := gen.Spell(f, gen.Canonical)
	r := gen.New(cs.Seed, 88)
	paths := model.Paths(merged)
	n := len(paths)
	parentOf := func(p string) string {
		if i := strings.LastIndexByte(p, '/'); i >= 0 {
			return p[:i]
		}
		return ""
	}
	leaf := map[string]bool{}
	for _, row := range model.Rows(merged, model.DefaultBranch) {
		if !row.HasChild {
			leaf[row.Path] = true
		}
	}
	var states []c08State
	addSubset := func(mask uint64, filesForLeaves bool, nExtra int) {
		st := c08State{present: map[string]bool{}, isFile: map[string]bool{}}
		for i, p := range paths {
			if mask&(1<<uint(i)) != 0 {
				st.present[p] = true
			}
		}
		// prefix-closed?
		for p := range st.present {
			if pp := parentOf(p); pp != "" && !st.present[pp] {
				return
			}
		}
		if filesForLeaves {
			for p := range st.present {
				if leaf[p] && r.Chance(1, 2) {
					st.isFile[p] = true
				}
			}
		}
		for k := 0; k < nExtra; k++ {
			// extras: inside a present directory node, next to the roots, or nested in an extra dir
			var dirs []string
			for p := range st.present {
				if !st.isFile[p] {
					dirs = append(dirs, p)
				}
			}
			sort.Strings(dirs)
			where := r.Intn(5)
			name := []string{"zz_extra", "zz.go", "Xtra dir", "zz_é"}[r.Intn(4)] + strconv.Itoa(k)
			switch {
			case where == 0 || len(dirs) == 0:
				st.extras = append(st.extras, name) // next to the roots: not below any root
			case where == 1:
				st.extras = append(st.extras, dirs[r.Intn(len(dirs))]+"/"+name)
			case where == 2:
				st.extras = append(st.extras, dirs[r.Intn(len(dirs))]+"/"+name+"/")
			case where == 4:
				st.extras = append(st.extras, dirs[r.Intn(len(dirs))]+"/"+name+"@")
				c.Count("states_with_symlink_extra", 1)
			default:
				st.extras = append(st.extras, dirs[r.Intn(len(dirs))]+"/"+name+"/deep/f")
			}
		}
		states = append(states, st)
	}
	if cs.Kind == "exhaustive" && n <= 6 {
		for mask := uint64(0); mask < 1<<uint(n); mask++ {
			addSubset(mask, false, 0)
		}
		full := uint64(1)<<uint(n) - 1
		addSubset(full, true, 0)
		addSubset(full, false, 1+r.Intn(3))
		addSubset(full&^(1<<uint(n-1)), true, 1+r.Intn(2))
	} else {
		full := uint64(1)<<uint(n) - 1
		if n > 60 {
			full = ^uint64(0)
		}
		addSubset(full, true, 0)
		addSubset(full, false, r.Range(1, 3))
		for t := 0; t < 6; t++ {
			m := full
			for k := r.Range(1, 3); k > 0; k-- {
				m &^= 1 << uint(r.Intn(n))
			}
			// close downwards: drop descendants of dropped nodes
			for i, p := range paths {
				if m&(1<<uint(i)) == 0 {
					for j2, q := range paths {
						if strings.HasPrefix(q, p+"/") {
							m &^= 1 << uint(j2)
						}
					}
				}
			}
			addSubset(m, t%2 == 0, r.Intn(3))
		}
	}
	// an inner node of the tree exists on disk as a regular file (as after a Mkdir of another
	// tree with a matching extension): its descendants cannot exist
	{
		var inner []string
		for _, p := range paths {
			if !leaf[p] {
				inner = append(inner, p)
			}
		}
		if cs.Kind != "exhaustive" && len(inner) > 1 {
			inner = []string{inner[r.Intn(len(inner))]}
		}
		for _, x := range inner {
			st := c08State{present: map[string]bool{}, isFile: map[string]bool{x: true}}
			for _, p := range paths {
				if !strings.HasPrefix(p, x+"/") {
					st.present[p] = true
				}
			}
			if r.Chance(1, 2) {
				st.extras = append(st.extras, "zz_beside_roots")
			}
			states = append(states, st)
		}
	}
	for si := range states {
		c08State1(c, cs, f, merged, doc, fkey, &states[si], si, "subset")
	}
	if cs.Kind != "random-equal-roots" && (!c.Quick() || cs.Seed%2 == 0) {
		c08Special(c, cs, f, merged, doc, fkey)
	}
	// states produced by a real Mkdir of the same tree with each extension list, and of another tree
	for ei := range ExtLists {
		if cs.Kind == "random-equal-roots" {
			break
		}
		if cs.Kind != "exhaustive" && ei != int(cs.Seed%uint64(len(ExtLists))) {
			continue
		}
		if cs.Kind == "exhaustive" && c.Quick() && ei%3 != int(cs.Seed%uint64(3)) {
			continue
		}
		c08AfterMkdir(c, cs, f, merged, doc, fkey, ei)
	}
	if merged.Size() >= 2 && c.WantSample(cs.Kind) && len(states) > 1 {
		var pr []string
		for p := range states[len(states)-1].present {
			pr = append(pr, p)
		}
		sort.Strings(pr)
		c.Sample(cs.Kind, map[string]any{"doc": doc, "present": pr, "extras": states[len(states)-1].extras})
	}
}

// judge one verify call against the model for the roots it covers
// c08Kept: the errors of the last few Verify calls together with the text they had when they
// were returned. A caller may keep a report and read it later: after other Verify calls (other
// trees, other directories) every kept report must still say what it said.
var c08Kept []struct {
	err   error
	text  string
	entry string
}

func c08Judge(c *Ctx, cs *Case, roots model.Forest, target, relPrefix string, strict bool, o Outcome, det map[string]any) {
	if open := mon.OpenUnder(target); len(open) > 0 {
		c.Violation(cs, "verify.left-descriptors-open", "", map[string]any{"open": open})
	}
	for _, k := range c08Kept {
		c.Count("kept_reports_read_again_after_later_calls", 1)
		if now := k.err.Error(); now != k.text {
			c.Violation(cs, "report.changed-after-later-calls", "", map[string]any{"returned_by": k.entry, "text_when_returned": trunc(k.text, 600), "text_now": trunc(now, 600), "later_call": cs.Entry})
			c08Kept = nil
			break
		}
	}
	if o.Err != nil && o.Panic == nil {
		if len(c08Kept) >= 6 {
			c08Kept = c08Kept[1:]
		}
		c08Kept = append(c08Kept, struct {
			err   error
			text  string
			entry string
		}{o.Err, o.Err.Error(), cs.Entry})
	}
	if o.Panic != nil {
		det["stack"] = o.Stack
		c.Violation(cs, "panic", PanicSig(o.Panic, o.Stack), det)
		return
	}
	// model: first differing root
	var wantMissing, wantExtra []string
	differs := false
	for _, root := range roots {
		actual, exists, isFile := actualUnder(target, root.Name)
		mp := model.Paths(model.Forest{root})
		mset := map[string]bool{}
		var miss, extra []string
		for _, p := range mp {
			mset[p] = true
			if !actual[p] {
				miss = append(miss, p)
			}
		}
		for p := range actual {
			if !mset[p] {
				extra = append(extra, p)
			}
		}
		if !exists {
			cs.AddTag("root-missing")
		}
		if isFile {
			cs.AddTag("root-is-file")
		}
		if len(miss) > 0 || (strict && len(extra) > 0) {
			differs = true
			wantMissing, wantExtra = miss, extra
			if !strict {
				wantExtra = nil
			}
			break
		}
	}
	sort.Strings(wantMissing)
	sort.Strings(wantExtra)
	det["want_missing"] = wantMissing
	det["want_extra"] = wantExtra
	det["err"] = errStr(o.Err)
	if !differs {
		if o.Err != nil {
			c.Violation(cs, "verdict.false-alarm", "", det)
		}
		return
	}
	if o.Err == nil {
		c.Violation(cs, "verdict.missed-difference", "", det)
		return
	}
	extra, missing, ok := parseVerifyErr(o.Err.Error())
	if !ok {
		c.Violation(cs, "report.unparsable", "", det)
		return
	}
	strip := func(xs []string) []string {
		out := make([]string, 0, len(xs))
		for _, x := range xs {
			x = filepath.ToSlash(x)
			if relPrefix != "" {
				x = strings.TrimPrefix(x, relPrefix+"/")
			}
			out = append(out, x)
		}
		sort.Strings(out)
		return out
	}
	extra, missing = strip(extra), strip(missing)
	det["got_missing"], det["got_extra"] = missing, extra
	if !sameStrings(missing, wantMissing) {
		c.Violation(cs, "report.missing-list-differs", "", det)
		return
	}
	if !sameStrings(extra, wantExtra) {
		c.Violation(cs, "report.extra-list-differs", "", det)
	}
}

func c08State1(c *Ctx, cs *Case, f, merged model.Forest, doc, fkey string, st *c08State, si int, kind string) {
	j, err := mon.NewJail(c.TmpDir, true)
	if err != nil {
		c.Inconclusive(cs, "jail: "+err.Error())
		return
	}
	defer j.Remove()
	st.materialise(j.Target)
	before := j.Snap()
	for _, strict := range []bool{false, true} {
		for ri, rt := range verifyRoutes {
			if ri >= 2 && (si+ri)%4 != 0 {
				continue // aliases for a quarter of the states
			}
			for _, deflt := range []bool{false, true} {
				if deflt && (si+ri)%3 != 0 {
					continue
				}
				target, rel := j.Target, j.Target
				if deflt {
					target, rel = "", ""
				} else if (si+ri)%5 == 2 {
					target = j.Target + "/" // a trailing slash must not change anything
				}
				opts := fsOpts(target, nil, false, false, false, strict)
				stray, strayName := strayOptions("verify", si+ri)
				opts = append(opts, stray...)
				cs.Entry = rt.Name + "[strict=" + strconv.FormatBool(strict) + "]"
				cs.Opt = map[string]string{"state": strconv.Itoa(si), "default_target": strconv.FormatBool(deflt), "kind": kind, "stray_options": strayName}
				run := func(doc string, root *model.Node, roots model.Forest) {
					cs.Tags = nil
					var o Outcome
					call := func() { o = verifyCall(rt, doc, root, opts) }
					if deflt {
						withCwd(j.Target, call)
					} else {
						call()
					}
					c.Eval(gen.HashString(fkey+"\x00"+cs.Entry+kind+strconv.Itoa(si)+strconv.FormatBool(deflt)+roots[0].Name), true)
					c.SetAdd("entries", cs.Entry)
					det := map[string]any{"forest": fkey, "doc": doc, "strict": strict, "extras": st.extras, "default_target": deflt}
					var pr []string
					for p := range st.present {
						pr = append(pr, p)
					}
					sort.Strings(pr)
					det["present"] = pr
					c08Judge(c, cs, roots, j.Target, rel, strict, o, det)
				}
				if rt.FromRoot {
					for _, root := range f {
						run("", root, model.Merge(model.Forest{root}))
					}
				} else {
					run(doc, nil, merged)
				}
			}
		}
	}
	// massive mode (several roots): the verdict must be the model's, and a report must be exactly
	// the lists of ONE differing root (which root is reported is schedule dependent)
	if len(merged) >= 2 {
		for _, strict := range []bool{false, true} {
			cs.Entry = "VerifyFromMarkdown[strict=" + strconv.FormatBool(strict) + ",massive]"
			cs.Opt = map[string]string{"state": strconv.Itoa(si), "kind": kind}
			cs.Tags = []string{"massive"}
			cs.SetDoc(doc)
			c.Rejournal(cs)
			base := runtime.NumGoroutine()
			o := verifyCall(verifyRoutes[0], doc, nil, fsOpts(j.Target, nil, false, false, true, strict))
			c08Quiet.Quiesce(base)
			c.Eval(gen.HashString(fkey+"\x00massive"+cs.Entry+kind+strconv.Itoa(si)), true)
			c.SetAdd("entries", cs.Entry)
			// model: per root missing/extra
			type me struct{ miss, extra []string }
			var differing []me
			for _, root := range merged {
				actual, _, _ := actualUnder(j.Target, root.Name)
				mset := map[string]bool{}
				var d me
				for _, p := range model.Paths(model.Forest{root}) {
					mset[p] = true
					if !actual[p] {
						d.miss = append(d.miss, p)
					}
				}
				if strict {
					for p := range actual {
						if !mset[p] {
							d.extra = append(d.extra, p)
						}
					}
				}
				sort.Strings(d.miss)
				sort.Strings(d.extra)
				if len(d.miss) > 0 || len(d.extra) > 0 {
					differing = append(differing, d)
				}
			}
			det := map[string]any{"forest": fkey, "doc": doc, "strict": strict, "err": errStr(o.Err), "differing_roots": len(differing)}
			switch {
			case o.Panic != nil:
				c.Violation(cs, "panic", PanicSig(o.Panic, o.Stack), det)
			case len(differing) == 0 && o.Err != nil:
				c.Violation(cs, "verdict.false-alarm", "massive", det)
			case len(differing) > 0 && o.Err == nil:
				c.Violation(cs, "verdict.missed-difference", "massive", det)
			case len(differing) > 0:
				extra, missing, ok := parseVerifyErr(o.Err.Error())
				match := false
				if ok {
					strip := func(xs []string) []string {
						out := []string{}
						for _, x := range xs {
							out = append(out, strings.TrimPrefix(filepath.ToSlash(x), j.Target+"/"))
						}
						sort.Strings(out)
						return out
					}
					extra, missing = strip(extra), strip(missing)
					for _, d := range differing {
						if sameStrings(missing, d.miss) && sameStrings(extra, d.extra) {
							match = true
						}
					}
				}
				if !match {
					det["got_missing"], det["got_extra"] = missing, extra
					c.Violation(cs, "report.lists-match-no-differing-root", "massive", det)
				}
			}
		}
		cs.Doc, cs.DocText = nil, ""
	}
	cs.Entry, cs.Opt, cs.Tags = "", nil, nil
	if d := mon.Diff(before, j.Snap()); len(d) != 0 {
		cs.Entry = "Verify*"
		c.Violation(cs, "verify.changed-filesystem", "", map[string]any{"forest": fkey, "diff": d})
		cs.Entry = ""
	}
}

// c08AfterMkdir: a tree just created by Mkdir with any extension list verifies strictly; and a
// directory made from another tree is judged like any other state.
func c08AfterMkdir(c *Ctx, cs *Case, f, merged model.Forest, doc, fkey string, ei int) {
	j, err := mon.NewJail(c.TmpDir, true)
	if err != nil {
		return
	}
	defer j.Remove()
	mo := mkdirCall(mkdirRoutes[0], doc, nil, fsOpts(j.Target, ExtLists[ei], ei != 0, false, false, false))
	if mo.Err != nil || mo.Panic != nil {
		return // C06's business
	}
	for ri, rt := range verifyRoutes[:2] {
		cs.Entry = rt.Name + "[strict=true]"
		cs.Opt = map[string]string{"after_mkdir_ext": strconv.Itoa(ei)}
		opts := fsOpts(j.Target, nil, false, false, false, true)
		run := func(doc string, root *model.Node, roots model.Forest) {
			cs.Tags = []string{"after-mkdir"}
			o := verifyCall(rt, doc, root, opts)
			c.Eval(gen.HashString(fkey+"\x00aftermkdir"+strconv.Itoa(ei*10+ri)+roots[0].Name), true)
			c.Count("after_mkdir", 1)
			// which roots are regular files
			for _, r0 := range roots {
				if model.IsFile(r0, ExtLists[ei]) {
					cs.AddTag("root-is-file")
				}
			}
			det := map[string]any{"forest": fkey, "doc": doc, "ext": ExtLists[ei], "err": errStr(o.Err)}
			if o.Panic != nil {
				c.Violation(cs, "panic", PanicSig(o.Panic, o.Stack), det)
			} else if o.Err != nil {
				c.Violation(cs, "after-mkdir.strict-verify-fails", "", det)
			}
		}
		if rt.FromRoot {
			for _, root := range f {
				run("", root, model.Forest{root})
			}
		} else {
			run(doc, nil, merged)
		}
	}
	cs.Entry, cs.Opt, cs.Tags = "", nil, nil
}

// c08Special: two environment states around the plain ones.
// (a) the first root is a symbolic link to a directory that holds the root's content (the
//     directory moved aside, a link in its place): every path exists exactly as before, so the
//     verdict and the lists must be those of the plain state (metamorphic).
// (b) a LATER root cannot be examined at all (its name is too long for the OS / it is a link to
//     itself) while the FIRST root differs: the report must still be the first root's.
func c08Special(c *Ctx, cs *Case, f, merged model.Forest, doc, fkey string) {
	r := gen.New(cs.Seed, 808)
	// ---------------- (a)
	{
		for _, strict := range []bool{false, true} {
			var verdict [2]string
			var pans [2]any
			for phase := 0; phase < 2; phase++ {
				j, err := mon.NewJail(c.TmpDir, true)
				if err != nil {
					return
				}
				for _, e := range model.FSEntries(merged, nil) {
					mkdirAll(j.Target + "/" + e.Path)
				}
				ps := model.Paths(model.Forest{merged[0]})
				if len(ps) > 1 && cs.Seed%3 == 0 {
					removeAll(j.Target + "/" + ps[len(ps)-1])
				}
				if cs.Seed%2 == 0 {
					mkdirAll(j.Target + "/" + merged[0].Name + "/zz_extra/deep")
				}
				if phase == 1 {
					moved := filepath.Join(filepath.Dir(j.Target), "moved-root")
					if err := os.Rename(filepath.Join(j.Target, merged[0].Name), moved); err != nil {
						j.Remove()
						return
					}
					os.Symlink("../moved-root", filepath.Join(j.Target, merged[0].Name))
				}
				var o Outcome
				if len(f) == 1 && cs.Seed%2 == 1 {
					o = verifyCall(verifyRoutes[1], "", f[0], fsOpts(j.Target, nil, false, false, false, strict))
				} else {
					o = verifyCall(verifyRoutes[0], doc, nil, fsOpts(j.Target, nil, false, false, false, strict))
				}
				pans[phase] = o.Panic
				verdict[phase] = strings.ReplaceAll(verdictLines(o.Err), j.Target, "T")
				j.Remove()
			}
			cs.Entry = "Verify[first root is a link to its directory]"
			c.Eval(gen.HashString(fkey+"\x00linkroot"+strconv.FormatBool(strict)), true)
			c.Count("root_behind_a_link_pairs", 1)
			det := map[string]any{"forest": fkey, "strict": strict, "plain": verdict[0], "through_link": verdict[1]}
			if pans[0] != nil || pans[1] != nil {
				c.Violation(cs, "panic", "link-root", det)
			} else if verdict[0] != verdict[1] {
				c.Violation(cs, "verdict.differs-when-root-is-a-link", "", det)
			}
			cs.Entry = ""
		}
	}
	// ---------------- (e) a Verify whose directory walk FAILS half-way (an entry whose name is not
	// valid UTF-8 cannot be listed through io/fs), then the obstacle and one required path are
	// removed and the same target is verified again: what the failed call had seen must not count
	if len(merged) > 0 && cs.Idx%2 == 0 {
		for _, strict := range []bool{false, true} {
			j, err := mon.NewJail(c.TmpDir, true)
			if err != nil {
				return
			}
			for _, e := range model.FSEntries(merged, nil) {
				mkdirAll(j.Target + "/" + e.Path)
			}
			obstacle := j.Target + "/" + merged[0].Name + "/zz\xffnot-utf8"
			mkdirAll(obstacle + "/inner")
			first := verifyCall(verifyRoutes[0], doc, nil, fsOpts(j.Target, nil, false, false, false, strict))
			removeAll(obstacle)
			ps := model.Paths(model.Forest{merged[len(merged)-1]})
			removeAll(j.Target + "/" + ps[len(ps)-1])
			if len(ps) > 2 {
				removeAll(j.Target + "/" + ps[len(ps)/2])
			}
			cs.Entry = "VerifyFromMarkdown[strict=" + strconv.FormatBool(strict) + ", after a call whose walk failed]"
			o := verifyCall(verifyRoutes[0], doc, nil, fsOpts(j.Target, nil, false, false, false, strict))
			c.Eval(gen.HashString(fkey+"\x00afterwalkerror"+strconv.FormatBool(strict)), true)
			c.Count("verifies_after_a_failed_walk", 1)
			if first.Err != nil {
				c.Count("verifies_after_a_failed_walk.first_call_did_fail", 1)
			}
			c08Judge(c, cs, merged, j.Target, j.Target, strict, o, map[string]any{"forest": fkey, "doc": doc, "strict": strict, "first_call_err": errStr(first.Err)})
			cs.Entry = ""
			j.Remove()
		}
	}
	// ---------------- (c) the root "." is the target directory itself: verifying the working directory
	{
		dot := &model.Node{Name: ".", Kids: merged}
		ddoc := gen.Spell(model.Forest{dot}, gen.Canonical)
		for variant := 0; variant < 3; variant++ { // 0 identical, 1 one path missing, 2 one extra entry
			j, err := mon.NewJail(c.TmpDir, true)
			if err != nil {
				return
			}
			ps := model.Paths(merged)
			drop := ""
			if variant == 1 {
				drop = ps[r.Intn(len(ps))]
			}
			var wantMissing, wantExtra []string
			for _, e := range model.FSEntries(merged, nil) {
				if drop != "" && (e.Path == drop || strings.HasPrefix(e.Path, drop+"/")) {
					wantMissing = append(wantMissing, e.Path)
					continue
				}
				mkdirAll(j.Target + "/" + e.Path)
			}
			if variant == 2 {
				mkdirAll(j.Target + "/zz_extra_entry")
				wantExtra = []string{"zz_extra_entry"}
			}
			sort.Strings(wantMissing)
			for ti, tgt := range []string{"", ".", explicitEmptyTarget, j.Target} {
				for _, strict := range []bool{false, true} {
					rt := verifyRoutes[(ti+variant)%2]
					var o Outcome
					withCwd(j.Target, func() {
						o = verifyCall(rt, ddoc, dot, fsOpts(tgt, nil, false, false, false, strict))
					})
					cs.Entry = rt.Name + "[root is \".\"]"
					c.Eval(gen.HashString(fkey+"\x00dotroot"+strconv.Itoa(variant*10+ti)+strconv.FormatBool(strict)), true)
					c.Count("dot_root_verifications", 1)
					det := map[string]any{"doc": ddoc, "variant": []string{"identical", "one path missing", "one extra entry"}[variant], "target_option": tgt, "strict": strict, "err": errStr(o.Err), "want_missing": wantMissing, "want_extra": wantExtra}
					expectErr := len(wantMissing) > 0 || (strict && len(wantExtra) > 0)
					switch {
					case o.Panic != nil:
						c.Violation(cs, "panic", "dot-root", det)
					case !expectErr && o.Err != nil:
						c.Violation(cs, "verdict.false-alarm", "dot-root", det)
					case expectErr && o.Err == nil:
						c.Violation(cs, "verdict.missed-difference", "dot-root", det)
					case expectErr:
						extra, missing, ok := parseVerifyErr(o.Err.Error())
						strip := func(xs []string) []string {
							var out []string
							for _, x := range xs {
								x = strings.TrimPrefix(filepath.ToSlash(x), j.Target+"/")
								out = append(out, strings.TrimPrefix(x, "./"))
							}
							sort.Strings(out)
							return out
						}
						we := wantExtra
						if !strict {
							we = nil
						}
						if !ok || !sameStrings(strip(missing), wantMissing) || !sameStrings(strip(extra), we) {
							det["got_missing"], det["got_extra"] = strip(missing), strip(extra)
							c.Violation(cs, "report.lists-differ", "dot-root", det)
						}
					}
					cs.Entry = ""
				}
			}
			j.Remove()
		}
	}
	// ---------------- (d) the first root exists, but as something that is neither a directory nor a
	// regular file (a FIFO): like a file root, it exists and nothing exists beneath it
	for _, strict := range []bool{false, true} {
		j, err := mon.NewJail(c.TmpDir, true)
		if err != nil {
			return
		}
		for _, e := range model.FSEntries(merged[1:], nil) {
			mkdirAll(j.Target + "/" + e.Path)
		}
		if err := syscall.Mkfifo(filepath.Join(j.Target, merged[0].Name), 0o644); err != nil {
			j.Remove()
			break
		}
		rt := verifyRoutes[0]
		o := verifyCall(rt, doc, nil, fsOpts(j.Target, nil, false, false, false, strict))
		cs.Entry = rt.Name + "[first root is a FIFO]"
		c.Eval(gen.HashString(fkey+"\x00fifo"+strconv.FormatBool(strict)), true)
		c.Count("special_file_root_cases", 1)
		c08Judge(c, cs, merged, j.Target, j.Target, strict, o, map[string]any{"forest": fkey, "strict": strict, "first_root": "FIFO"})
		cs.Entry = ""
		j.Remove()
	}
	// ---------------- (b)
	if len(merged) >= 1 {
		for variant := 0; variant < 2; variant++ {
			lateName := strings.Repeat("L", 256)
			if variant == 1 {
				lateName = "zz-self-link"
			}
			g := append(model.Forest{}, merged...)
			g = append(g, &model.Node{Name: lateName, Kids: []*model.Node{{Name: "kid"}}})
			gdoc := gen.Spell(g, gen.Canonical)
			for _, strict := range []bool{false, true} {
				j, err := mon.NewJail(c.TmpDir, true)
				if err != nil {
					return
				}
				// the first root differs: one of its paths is missing (or it is missing altogether)
				ps := model.Paths(model.Forest{merged[0]})
				drop := ps[r.Intn(len(ps))]
				for _, e := range model.FSEntries(merged, nil) {
					if e.Path == drop || strings.HasPrefix(e.Path, drop+"/") {
						continue
					}
					mkdirAll(j.Target + "/" + e.Path)
				}
				if variant == 1 {
					os.Symlink(lateName, filepath.Join(j.Target, lateName))
				}
				o := verifyCall(verifyRoutes[0], gdoc, nil, fsOpts(j.Target, nil, false, false, false, strict))
				cs.Entry = "VerifyFromMarkdown[a later root cannot be examined]"
				cs.Tags = []string{[]string{"name-too-long", "link-to-itself"}[variant]}
				c.Eval(gen.HashString(fkey+"\x00lateroot"+strconv.Itoa(variant)+strconv.FormatBool(strict)), true)
				c.Count("unexaminable_later_root_cases", 1)
				det := map[string]any{"forest": fkey, "later_root": trunc(lateName, 20), "dropped": drop, "strict": strict}
				c08Judge(c, cs, merged[:1], j.Target, j.Target, strict, o, det)
				cs.Entry, cs.Tags = "", nil
				j.Remove()
			}
		}
	}
}
