package checks

import (
	"os"
	"path/filepath"

	"github.com/ddddddO/gtree"

	"runtime"
	"strconv"
	"strings"

	"gtverif/gen"
	"gtverif/model"
	"gtverif/mon"
)

// C07 — mkdir never escapes the target directory and validates names first. Oracle: jail
// conservation outside the target for every call whatever its outcome; a tree with a name that
// is unambiguously not a single valid path element must be rejected and, without massive,
// nothing at all may be created.

func init() {
	Register(&Check{Prop: "C07", Run: runC07, Replay: func(c *Ctx, cs *Case) { evalC07(c, cs) }})
}

// hostile names that can be written in a Markdown line
var c07Hostile = []string{"..", ".", "a/b", "/abs", "../x", "a/../../x", "../../../e", "..\\x", "a\x00b", strings.Repeat("N", 256), "./y", "a/", "//", "...", ".. ", " .."}

// additionally for programmatic trees
var c07HostileRootOnly = []string{"", "a\nb", "\n", "../\n"}

// mustReject: the name is unambiguously not a single valid path element.
func mustReject(name string, isRoot bool) bool {
	if strings.Contains(name, "/") || name == ".." || name == "" {
		return true
	}
	if name == "." && !isRoot {
		return true
	}
	return false
}

func runC07(c *Ctx) bool {
	idx := 0
	nMax := c.Pick(4, 5)
	for n := 1; n <= nMax; n++ {
		gen.ForEachShape(n, func(depths []int) {
			for pos := 0; pos < n; pos++ {
				for hi := range c07Hostile {
					i := idx
					idx++
					if !c.Mine(i) {
						continue
					}
					names := make([]string, n)
					for k := range names {
						names[k] = "n" + strconv.Itoa(k)
					}
					names[pos] = c07Hostile[hi]
					cs := &Case{Idx: i, Kind: "one-hostile", Depths: append([]int(nil), depths...), Names: names, N: []int{pos, hi}, Seed: uint64(i)}
					c.Journal(cs)
					evalC07(c, cs)
					c.Progress(false)
				}
			}
		})
	}
	nRand := c.Pick(1500, 40000)
	for j := 0; j < nRand; j++ {
		i := idx
		idx++
		if !c.Mine(i) {
			continue
		}
		r := gen.New(c.Seed, 701, uint64(j))
		f := gen.RandForest(r, []int{5, 10}[r.Intn(2)], r.Range(2, 5), []int{gen.ClassPlain, gen.ClassPathHostile, gen.ClassExt}, 0)
		depths, names := gen.Depths(f)
		for k := range names {
			if r.Chance(1, 4) {
				names[k] = c07Hostile[r.Intn(len(c07Hostile))]
			}
		}
		kind := "random"
		if r.Chance(1, 4) {
			kind = "random-rootonly"
			names[r.Intn(len(names))] = c07HostileRootOnly[r.Intn(len(c07HostileRootOnly))]
		}
		cs := &Case{Idx: i, Kind: kind, Depths: depths, Names: names, Seed: r.Uint64()}
		c.Journal(cs)
		evalC07(c, cs)
		c.Progress(false)
	}
	// wide roots: one root with 128..400 children (some with a child of their own) and ONE name that
	// is not a path element, at the first / a middle / the last child or below it
	nWide := c.Pick(8, 60)
	for j := 0; j < nWide; j++ {
		i := idx
		idx++
		if !c.Mine(i) {
			continue
		}
		r := gen.New(c.Seed, 702, uint64(j))
		n := []int{128, 130, 200, 401}[j%4]
		depths := []int{1}
		names := []string{"wide"}
		var childPos []int
		for k := 0; k < n; k++ {
			childPos = append(childPos, len(depths))
			depths = append(depths, 2)
			names = append(names, "c"+strconv.Itoa(k))
			if k%3 == 0 {
				depths = append(depths, 3)
				names = append(names, "g"+strconv.Itoa(k))
			}
		}
		at := childPos[[]int{0, n / 2, n - 1}[(j/4)%3]]
		if j%2 == 1 && at+1 < len(depths) && depths[at+1] == 3 {
			at++ // the grandchild
		}
		names[at] = []string{"../../escaped", "..", "a/b", "./x"}[r.Intn(4)]
		cs := &Case{Idx: i, Kind: "wide-root", Depths: depths, Names: names, Seed: r.Uint64()}
		c.Journal(cs)
		evalC07(c, cs)
		c.Progress(false)
	}
	return true
}

func evalC07(c *Ctx, cs *Case) {
	f := gen.FromDepths(cs.Depths, cs.Names)
	gen.DistinctRoots(f)
	fkey := f.String()
	r := gen.New(cs.Seed, 77)
	spellable := gen.CanSpell(f)
	doc := ""
	if spellable {
		doc = gen.Spell(f, gen.Canonical)
	}
	// which trees must be rejected
	invalidRoot := make([]bool, len(f))
	anyInvalid := false
	for i, root := range f {
		var walk func(n *model.Node, isRoot bool)
		walk = func(n *model.Node, isRoot bool) {
			if mustReject(n.Name, isRoot) {
				invalidRoot[i] = true
				anyInvalid = true
			}
			for _, k := range n.Kids {
				walk(k, false)
			}
		}
		walk(root, true)
	}
	extChoices := []int{0, 1, 7, 8}
	// explicit abs, default via chdir, relative ./target/../target, a target that does not exist yet,
	// 4: "../target" from a working directory that was entered through a symbolic link ($PWD names
	// the link), 5: "<link>/../target" where the link leads to a directory with another parent
	// 6: a target directory whose own name ends in a blank ("out ")
	targetForms := []int{0, 1, 2, 3, 4, 5, 6}
	if cs.Kind != "one-hostile" || c.Quick() {
		extChoices = []int{extChoices[r.Intn(3)]}
		targetForms = []int{r.Intn(7)}
	}
	for _, rtIdx := range []int{0, 1, 2, 3} {
		rt := mkdirRoutes[rtIdx]
		if rtIdx >= 2 && (cs.Idx+rtIdx)%2 == 0 {
			continue // the deprecated aliases for half of the cases
		}
		if !rt.FromRoot && !spellable {
			continue
		}
		for _, dry := range []bool{false, true} {
			for _, massive := range []bool{false, true} {
				for _, ei := range extChoices {
					for _, tf := range targetForms {
						c07One(c, cs, f, doc, fkey, rt, dry, massive, ei, tf, invalidRoot, anyInvalid)
					}
				}
			}
		}
	}
	if cs.Idx%4 == 1 {
		c07Repoint(c, cs, fkey)
	}
	if cs.Idx%4 == 2 {
		c07DotRoot(c, cs, fkey)
	}
	if c.WantSample(cs.Kind) {
		c.Sample(cs.Kind, map[string]any{"forest": fkey, "doc": doc, "must_reject": anyInvalid})
	}
}

// c07Repoint: the target directory of two calls is the same STRING, "<dir>/current", a symbolic
// link that is moved from release-1 to release-2 between the calls (a deployment switch). The
// target directory of the second call is what the path names when that call is made: its entries
// go to release-2, and release-1 keeps what the first call made.
func c07Repoint(c *Ctx, cs *Case, fkey string) {
	for _, massive := range []bool{false, true} {
		for rtIdx := 0; rtIdx < 2; rtIdx++ {
			rt := mkdirRoutes[rtIdx]
			j, err := mon.NewJail(c.TmpDir, true)
			if err != nil {
				return
			}
			deep := filepath.Dir(j.Target)
			os.Mkdir(filepath.Join(j.Target, "release-1"), 0o755)
			os.Mkdir(filepath.Join(j.Target, "release-2"), 0o755)
			cur := filepath.Join(deep, "current")
			os.Symlink("target/release-1", cur)
			opts := fsOpts(cur, nil, false, false, massive, false)
			mode := map[bool]string{true: "massive", false: "simple"}[massive]
			cs.Entry = rt.Name + "[real," + mode + ",target re-pointed between two calls]"
			base := runtime.NumGoroutine()
			t1 := &model.Node{Name: "first-call", Kids: []*model.Node{{Name: "a", Kids: []*model.Node{{Name: "b"}}}}}
			t2 := &model.Node{Name: "second-call", Kids: []*model.Node{{Name: "x"}, {Name: "y", Kids: []*model.Node{{Name: "z"}}}}}
			o1 := mkdirCall(rt, gen.Spell(model.Forest{t1}, gen.Canonical), t1, opts)
			if massive {
				c07Quiet.Quiesce(base)
			}
			mid := j.Snap()
			os.Remove(cur)
			os.Symlink("target/release-2", cur)
			before := j.Snap()
			o2 := mkdirCall(rt, gen.Spell(model.Forest{t2}, gen.Canonical), t2, fsOpts(cur, nil, false, false, massive, false))
			if massive {
				c07Quiet.Quiesce(base)
			}
			diff := mon.Diff(before, j.Snap())
			_, outside := mon.Under(diff, j.Rel+"/release-2")
			c.Eval(gen.HashString(fkey+"\x00repoint"+cs.Entry), true)
			c.Count("repointed_target_pairs", 1)
			det := map[string]any{"first_err": errStr(o1.Err), "second_err": errStr(o2.Err), "diff_of_second_call": diff, "first_call_made": len(mon.Diff(mon.Snapshot{}, mid)) > 0}
			switch {
			case o1.Panic != nil || o2.Panic != nil:
				c.Violation(cs, "panic", "repoint", det)
			case len(outside) > 0:
				det["outside"] = outside
				c.Violation(cs, "escape.outside-target", "re-pointed-link", det)
			case o1.Err != nil || o2.Err != nil || len(diff) != 4:
				// second-call, x, y, y/z below release-2 and nothing else
				c.Violation(cs, "repoint.second-call-incomplete", "", det)
			}
			cs.Entry = ""
			j.Remove()
		}
	}
}

var c07Quiet = mon.NewLeakMonitor()

func c07One(c *Ctx, cs *Case, f model.Forest, doc, fkey string, rt fsRoute, dry, massive bool, ei, tf int, invalidRoot []bool, anyInvalid bool) {
	j, err := mon.NewJail(c.TmpDir, true)
	if err != nil {
		c.Inconclusive(cs, "jail: "+err.Error())
		return
	}
	defer j.Remove()
	// a third of the targets already contain symbolic links that lead OUT of the target, named like
	// the tree's nodes (to a directory outside, or dangling to a place outside): whatever the
	// names, nothing may be created through them
	outwardLinks := (cs.Idx+ei+tf)%3 == 0
	if outwardLinks {
		_, names := gen.Depths(f)
		seen := map[string]bool{}
		for i, n := range names {
			if seen[n] || !fsSafeName(n) {
				continue
			}
			seen[n] = true
			if i%2 == 0 {
				os.Symlink("../sentinel-a", filepath.Join(j.Target, n))
			} else {
				os.Symlink("../target-sibling/made-through-link-"+strconv.Itoa(i), filepath.Join(j.Target, n))
			}
		}
		c.Count("targets_with_outward_links", 1)
	}
	deep := filepath.Dir(j.Target)
	// where the entries may ALSO go without leaving "the target directory": for form 5 the path
	// has two readings (the kernel follows the link before "..", path cleaning removes "link/.."
	// first); either reading is accepted, as long as ALL of the call's entries follow the same one
	altRel, altHasRoots := "", false
	rel := j.Rel
	switch tf {
	case 6:
		os.Mkdir(j.Target+"/out ", 0o755)
		os.Mkdir(j.Target+"/out", 0o755) // (the neighbour a trimmed spelling would name)
		rel = j.Rel + "/out "
	case 4:
		os.Symlink("l2/l3/l4/sentinel-a", filepath.Join(j.Root, "l1", "via-link"))
	case 5:
		os.Symlink("..", filepath.Join(deep, "up-link")) // -> l3, whose parent is l2
		os.Mkdir(filepath.Join(j.Root, "l1", "l2", "target"), 0o755)
		altRel = "l1/l2/target"
		// in THAT directory every root exists already: a call that reads the path this way has to
		// refuse (ErrExistPath) instead of filling the existing directories
		altHasRoots = true
		for _, root := range f {
			if !fsSafeName(root.Name) {
				altHasRoots = false
			}
		}
		if altHasRoots {
			for _, root := range f {
				os.MkdirAll(filepath.Join(j.Root, "l1", "l2", "target", root.Name), 0o755)
			}
		}
	}
	before := j.Snap()
	target := j.Target
	switch tf {
	case 1:
		target = ""
	case 2:
		target = "./target/../target"
	case 3:
		target = filepath.Join(j.Target, "not", "there-yet") // a rejected tree must not even leave the target behind
	case 4:
		target = "../target"
	case 5:
		target = deep + "/up-link/../target"
	case 6:
		target = j.Target + "/out "
	}
	opts := fsOpts(target, ExtLists[ei], ei != 0, dry, massive, false)
	// a stray output-encoding option (meaningless for mkdir) must not open a way out of the target
	stray := ""
	switch (cs.Idx + ei + tf) % 5 {
	case 1:
		opts, stray = append(opts, gtree.WithEncodeJSON()), "json"
	case 3:
		opts, stray = append(opts, gtree.WithEncodeYAML()), "yaml"
	}
	mode := map[bool]string{true: "massive", false: "simple"}[massive]
	cs.Entry = rt.Name + "[" + map[bool]string{true: "dryrun", false: "real"}[dry] + "," + mode + "]"
	cs.Tags = []string{mode, map[bool]string{true: "dryrun", false: "real"}[dry]}
	cs.Opt = map[string]string{"ext": strconv.Itoa(ei), "target_form": strconv.Itoa(tf), "stray_encode_option": stray}
	if stray != "" {
		cs.AddTag("stray-encode-option")
	}
	if outwardLinks {
		cs.AddTag("target-has-outward-links")
	}
	defer func() { cs.Entry, cs.Tags, cs.Opt = "", nil, nil }()
	if massive {
		c.Rejournal(cs)
	}
	type res struct {
		o       Outcome
		invalid bool
	}
	var results []res
	call := func() {
		captureColorOutput(func() {
			if rt.FromRoot {
				for i, root := range f {
					if (cs.Idx+i)%2 == 1 && !rt.Alias {
						// a tree that has been used before: Output and Walk first, then Mkdir on the SAME tree
						g := BuildRoot(root)
						_ = Guard(func() error { return gtree.OutputFromRoot(mon.NewRecWriter(), g) })
						_ = Guard(func() error { return gtree.WalkFromRoot(g, func(*gtree.WalkerNode) error { return nil }) })
						results = append(results, res{Guard(func() error { return gtree.MkdirFromRoot(g, opts...) }), invalidRoot[i]})
						continue
					}
					results = append(results, res{mkdirCall(rt, "", root, opts), invalidRoot[i]})
				}
			} else {
				results = append(results, res{mkdirCall(rt, doc, nil, opts), anyInvalid})
			}
		})
	}
	baseline := runtime.NumGoroutine()
	switch tf {
	case 1:
		withCwd(j.Target, call)
	case 2:
		withCwd(filepath.Dir(j.Target), call)
	case 4:
		// the shell's view after "cd <jail>/l1/via-link": the kernel's working directory is
		// l4/sentinel-a, $PWD is the link's path; "../target" is the jail's target for the kernel
		oldPWD, had := os.LookupEnv("PWD")
		via := filepath.Join(j.Root, "l1", "via-link")
		withCwd(via, func() {
			os.Setenv("PWD", via)
			call()
		})
		if had {
			os.Setenv("PWD", oldPWD)
		} else {
			os.Unsetenv("PWD")
		}
	default:
		// explicit target: the working directory is a sentinel directory INSIDE the jail, so that
		// anything created relative to the working directory (a dropped target option) is seen
		withCwd(filepath.Join(filepath.Dir(j.Target), "sentinel-a"), call)
	}
	if massive {
		// a massive call may return (with an error) while its workers are still creating
		// directories; let them finish so that they are judged on this jail, not the next one
		c07Quiet.Quiesce(baseline)
	}
	after := j.Snap()
	diff := mon.Diff(before, after)
	inside, outside := mon.Under(diff, rel)
	if altRel != "" && len(outside) > 0 {
		if in2, out2 := mon.Under(diff, altRel); len(out2) == 0 && !altHasRoots {
			inside, outside = in2, nil
			c.Count("form5_targets_resolved_through_the_link", 1)
		} else if len(out2) == 0 {
			c.Violation(cs, "exists.filled-an-existing-root", "", map[string]any{"forest": fkey, "doc": doc, "target": deep + "/up-link/../target", "diff": diff,
				"note": "the entries were made in the directory the kernel resolves the target to, where every root existed before the call"})
			outside = nil
		}
	}
	c.Count("target_form."+strconv.Itoa(tf), 1)
	c.Eval(gen.HashString(fkey+"\x00"+cs.Entry+strconv.Itoa(ei*10+tf)), true)
	c.SetAdd("entries", cs.Entry)
	det := map[string]any{"forest": fkey, "doc": doc, "ext": ExtLists[ei], "target_form": tf, "diff": diff}
	// (1) confinement: whatever the outcome
	if len(outside) > 0 {
		det["outside"] = outside
		c.Violation(cs, "escape.outside-target", "", det)
		c.Count("escapes", 1)
	}
	for _, rr := range results {
		if rr.o.Panic != nil {
			det["stack"] = rr.o.Stack
			c.Violation(cs, "panic", PanicSig(rr.o.Panic, rr.o.Stack), det)
			return
		}
	}
	// (2) invalid names are rejected
	for _, rr := range results {
		if rr.invalid && rr.o.Err == nil {
			c.Violation(cs, "invalid-name.accepted", "", det)
			break
		}
	}
	// (3) without massive, a rejected tree leaves nothing behind. From-Root: every root is its own
	// call, so only all-invalid forests must leave the target untouched; From-Markdown: one call.
	if !massive && anyInvalid && len(inside) > 0 {
		allInvalid := true
		for _, b := range invalidRoot {
			if !b {
				allInvalid = false
			}
		}
		if !rt.FromRoot || allInvalid {
			c.Violation(cs, "invalid-name.created-something", "", det)
		}
	}
	if anyInvalid {
		c.Count("must_reject_cases", 1)
	}
}


// c07DotRoot: a forest one of whose roots is "." (it names the target itself, which exists), next
// to ordinary roots, into a target that already holds symbolic links named like the CHILDREN of
// "." and leading out of the target (to a directory outside; dangling to a file outside).
// Whether the call refuses (the root exists) or not, nothing outside the target may change.
func c07DotRoot(c *Ctx, cs *Case, fkey string) {
	dot := &model.Node{Name: ".", Kids: []*model.Node{
		{Name: "esc", Kids: []*model.Node{{Name: "inner", Kids: []*model.Node{{Name: "deep.gz"}}}}},
		{Name: "made.gz"},
	}}
	other := &model.Node{Name: "other", Kids: []*model.Node{{Name: "x"}}}
	for vi, f := range []model.Forest{{dot, other}, {other, dot}, {dot}, {other, dot, &model.Node{Name: "third"}}} {
		for _, massive := range []bool{false, true} {
			for rtIdx := 0; rtIdx < 2; rtIdx++ {
				rt := mkdirRoutes[rtIdx]
				j, err := mon.NewJail(c.TmpDir, true)
				if err != nil {
					return
				}
				os.Symlink("../sentinel-a", filepath.Join(j.Target, "esc"))
				os.Symlink("../target-sibling/made-through-a-link", filepath.Join(j.Target, "made.gz"))
				before := j.Snap()
				mode := map[bool]string{true: "massive", false: "simple"}[massive]
				cs.Entry = rt.Name + "[real," + mode + ",a root named . beside others, links named like its children]"
				base := runtime.NumGoroutine()
				opts := func() []gtree.Option { return fsOpts(j.Target, []string{".gz"}, true, false, massive, false) }
				var errs []string
				if rt.FromRoot {
					for _, root := range f {
						errs = append(errs, errStr(mkdirCall(rt, "", root, opts()).Err))
					}
				} else {
					errs = append(errs, errStr(mkdirCall(rt, gen.Spell(f, gen.Canonical), nil, opts()).Err))
				}
				if massive {
					c07Quiet.Quiesce(base)
				}
				diff := mon.Diff(before, j.Snap())
				_, outside := mon.Under(diff, j.Rel)
				j.Remove()
				c.Eval(gen.HashString(fkey+"\x00dotroot"+cs.Entry+strconv.Itoa(vi)), true)
				c.Count("dot_root_forests", 1)
				if len(outside) > 0 {
					c.Violation(cs, "escape.outside-target", "dot-root", map[string]any{"forest": f.String(), "errors": errs, "outside": outside})
				}
				cs.Entry = ""
			}
		}
	}
}
