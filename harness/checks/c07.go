package checks

import (
	"os"
	"path/filepath"

	"github.com/ddddddO/gtree"

	"runtime"
	"strconv"
	"strings"

	"gtverif/gen"
	"gtverif/model"
	"gtverif/mon"
)

// C07 — mkdir never escapes the target directory and validates names first. Oracle: jail
// conservation outside the target for every call whatever its outcome; a tree with a name that
// is unambiguously not a single valid path element must be rejected and, without massive,
// nothing at all may be created.

func init() {
	Register(&Check{Prop: "C07", Run: runC07, Replay: func(c *Ctx, cs *Case) { evalC07(c, cs) }})
}

// hostile names that can be written in a Markdown line
var c07Hostile = []string{"..", ".", "a/b", "/abs", "../x", "a/../../x", "../../../e", "..\\x", "a\x00b", strings.Repeat("N", 256), "./y", "a/", "//", "...", ".. ", " .."}

// additionally for programmatic trees
var c07HostileRootOnly = []string{"", "a\nb", "\n", "../\n"}

// mustReject: the name is unambiguously not a single valid path element.
func mustReject(name string, isRoot bool) bool {
	if strings.Contains(name, "/") || name == ".." || name == "" {
		return true
	}
	if name == "." && !isRoot {
		return true
	}
	return false
}

func runC07(c *Ctx) bool {
	idx := 0
	nMax := c.Pick(4, 5)
	for n := 1; n <= nMax; n++ {
		gen.ForEachShape(n, func(depths []int) {
			for pos := 0; pos < n; pos++ {
				for hi := range c07Hostile {
					i := idx
					idx++
					if !c.Mine(i) {
						continue
					}
					names := make([]string, n)
					for k := range names {
						names[k] = "n" + strconv.Itoa(k)
					}
					names[pos] = c07Hostile[hi]
					cs := &Case{Idx: i, Kind: "one-hostile", Depths: append([]int(nil), depths...), Names: names, N: []int{pos, hi}, Seed: uint64(i)}
					c.Journal(cs)
					evalC07(c, cs)
					c.Progress(false)
				}
			}
		})
	}
	nRand := c.Pick(1500, 40000)
	for j := 0; j < nRand; j++ {
		i := idx
		idx++
		if !c.Mine(i) {
			continue
		}
		r := gen.New(c.Seed, 701, uint64(j))
		f := gen.RandForest(r, []int{5, 10}[r.Intn(2)], r.Range(2, 5), []int{gen.ClassPlain, gen.ClassPathHostile, gen.ClassExt}, 0)
		depths, names := gen.Depths(f)
		for k := range names {
			if r.Chance(1, 4) {
				names[k] = c07Hostile[r.Intn(len(c07Hostile))]
			}
		}
		kind := "random"
		if r.Chance(1, 4) {
			kind = "random-rootonly"
			names[r.Intn(len(names))] = c07HostileRootOnly[r.Intn(len(c07HostileRootOnly))]
		}
		cs := &Case{Idx: i, Kind: kind, Depths: depths, Names: names, Seed: r.Uint64()}
		c.Journal(cs)
		evalC07(c, cs)
		c.Progress(false)
	}
	// wide roots: one root with 128..400 children (some with a child of their own) and ONE name that
	// is not a path element, at the first / a middle / the last child or below it
	nWide := c.Pick(8, 60)
	for j := 0; j < nWide; j++ {
		i := idx
		idx++
		if !c.Mine(i) {
			continue
		}
		r := gen.New(c.Seed, 702, uint64(j))
		n := []int{128, 130, 200, 401}[j%4]
		depths := []int{1}
		names := []string{"wide"}
		var childPos []int
		for k := 0; k < n; k++ {
			childPos = append(childPos, len(depths))
			depths = append(depths, 2)
			names = append(names, "c"+strconv.Itoa(k))
			if k%3 == 0 {
				depths = append(depths, 3)
				names = append(names, "g"+strconv.Itoa(k))
			}
		}
		at := childPos[[]int{0, n / 2, n - 1}[(j/4)%3]]
		if j%2 == 1 && at+1 < len(depths) && depths[at+1] == 3 {
			at++ // the grandchild
		}
		names[at] = []string{"../../escaped", "..", "a/b", "./x"}[r.Intn(4)]
		cs := &Case{Idx: i, Kind: "wide-root", Depths: depths, Names: names, Seed: r.Uint64()}
		c.Journal(cs)
		evalC07(c, cs)
		c.Progress(false)
	}
	return true
}

func evalC07(c *Ctx, cs *Case) {
	f := gen.FromDepths(cs.Depths, cs.Names)
	gen.DistinctRoots(f)
	fkey := f.String()
	r := gen.New(cs.Seed, 77)
	spellable := gen.CanSpell(f)
	doc := ""
	if spellable {
		doc = gen.Spell(f, gen.Canonical)
	}
	// which trees must be rejected
	invalidRoot := make([]bool, len(f))
	anyInvalid := false
	for i, root := range f {
		var walk func(n *model.Node, isRoot bool)
		walk = func(n *model.Node, isRoot bool) {
			if mustReject(n.Name, isRoot) {
				invalidRoot[i] = true
				anyInvalid = true
			}
			for _, k := range n.Kids {
				walk(k, false)
			}
		}
		walk(root, true)
	}
	extChoices := []int{0, 1, 7, 8}
	targetForms := []int{0, 1, 2, 3} // explicit abs, default via chdir, relative ./target/../target, a target that does not exist yet
	if cs.Kind != "one-hostile" || c.Quick() {
		extChoices = []int{extChoices[r.Intn(3)]}
		targetForms = []int{r.Intn(4)}
	}
	for _, rtIdx := range []int{0, 1, 2, 3} {
		rt := mkdirRoutes[rtIdx]
		if rtIdx >= 2 && (cs.Idx+rtIdx)%2 == 0 {
			continue // the deprecated aliases for half of the cases
		}
		if !rt.FromRoot && !spellable {
			continue
		}
		for _, dry := range []bool{false, true} {
			for _, massive := range []bool{false, true} {
				for _, ei := range extChoices {
					for _, tf := range targetForms {
						c07One(c, cs, f, doc, fkey, rt, dry, massive, ei, tf, invalidRoot, anyInvalid)
					}
				}
			}
		}
	}
	if c.WantSample(cs.Kind) {
		c.Sample(cs.Kind, map[string]any{"forest": fkey, "doc": doc, "must_reject": anyInvalid})
	}
}

var c07Quiet = mon.NewLeakMonitor()

func c07One(c *Ctx, cs *Case, f model.Forest, doc, fkey string, rt fsRoute, dry, massive bool, ei, tf int, invalidRoot []bool, anyInvalid bool) {
	j, err := mon.NewJail(c.TmpDir, true)
	if err != nil {
		c.Inconclusive(cs, "jail: "+err.Error())
		return
	}
	defer j.Remove()
	// a third of the targets already contain symbolic links that lead OUT of the target, named like
	// the tree's nodes (to a directory outside, or dangling to a place outside): whatever the
	// names, nothing may be created through them
	outwardLinks := (cs.Idx+ei+tf)%3 == 0
	if outwardLinks {
		_, names := gen.Depths(f)
		seen := map[string]bool{}
		for i, n := range names {
			if seen[n] || !fsSafeName(n) {
				continue
			}
			seen[n] = true
			if i%2 == 0 {
				os.Symlink("../sentinel-a", filepath.Join(j.Target, n))
			} else {
				os.Symlink("../target-sibling/made-through-link-"+strconv.Itoa(i), filepath.Join(j.Target, n))
			}
		}
		c.Count("targets_with_outward_links", 1)
	}
	before := j.Snap()
	target := j.Target
	switch tf {
	case 1:
		target = ""
	case 2:
		target = "./target/../target"
	case 3:
		target = filepath.Join(j.Target, "not", "there-yet") // a rejected tree must not even leave the target behind
	}
	opts := fsOpts(target, ExtLists[ei], ei != 0, dry, massive, false)
	// a stray output-encoding option (meaningless for mkdir) must not open a way out of the target
	stray := ""
	switch (cs.Idx + ei + tf) % 5 {
	case 1:
		opts, stray = append(opts, gtree.WithEncodeJSON()), "json"
	case 3:
		opts, stray = append(opts, gtree.WithEncodeYAML()), "yaml"
	}
	mode := map[bool]string{true: "massive", false: "simple"}[massive]
	cs.Entry = rt.Name + "[" + map[bool]string{true: "dryrun", false: "real"}[dry] + "," + mode + "]"
	cs.Tags = []string{mode, map[bool]string{true: "dryrun", false: "real"}[dry]}
	cs.Opt = map[string]string{"ext": strconv.Itoa(ei), "target_form": strconv.Itoa(tf), "stray_encode_option": stray}
	if stray != "" {
		cs.AddTag("stray-encode-option")
	}
	if outwardLinks {
		cs.AddTag("target-has-outward-links")
	}
	defer func() { cs.Entry, cs.Tags, cs.Opt = "", nil, nil }()
	if massive {
		c.Rejournal(cs)
	}
	type res struct {
		o       Outcome
		invalid bool
	}
	var results []res
	call := func() {
		captureColorOutput(func() {
			if rt.FromRoot {
				for i, root := range f {
					if (cs.Idx+i)%2 == 1 && !rt.Alias {
						// a tree that has been used before: Output and Walk first, then Mkdir on the SAME tree
						g := BuildRoot(root)
						_ = Guard(func() error { return gtree.OutputFromRoot(mon.NewRecWriter(), g) })
						_ = Guard(func() error { return gtree.WalkFromRoot(g, func(*gtree.WalkerNode) error { return nil }) })
						results = append(results, res{Guard(func() error { return gtree.MkdirFromRoot(g, opts...) }), invalidRoot[i]})
						continue
					}
					results = append(results, res{mkdirCall(rt, "", root, opts), invalidRoot[i]})
				}
			} else {
				results = append(results, res{mkdirCall(rt, doc, nil, opts), anyInvalid})
			}
		})
	}
	baseline := runtime.NumGoroutine()
	switch tf {
	case 1:
		withCwd(j.Target, call)
	case 2:
		withCwd(filepath.Dir(j.Target), call)
	default:
		// explicit target: the working directory is a sentinel directory INSIDE the jail, so that
		// anything created relative to the working directory (a dropped target option) is seen
		withCwd(filepath.Join(filepath.Dir(j.Target), "sentinel-a"), call)
	}
	if massive {
		// a massive call may return (with an error) while its workers are still creating
		// directories; let them finish so that they are judged on this jail, not the next one
		c07Quiet.Quiesce(baseline)
	}
	after := j.Snap()
	diff := mon.Diff(before, after)
	inside, outside := mon.Under(diff, j.Rel)
	c.Eval(gen.HashString(fkey+"\x00"+cs.Entry+strconv.Itoa(ei*10+tf)), true)
	c.SetAdd("entries", cs.Entry)
	det := map[string]any{"forest": fkey, "doc": doc, "ext": ExtLists[ei], "target_form": tf, "diff": diff}
	// (1) confinement: whatever the outcome
	if len(outside) > 0 {
		det["outside"] = outside
		c.Violation(cs, "escape.outside-target", "", det)
		c.Count("escapes", 1)
	}
	for _, rr := range results {
		if rr.o.Panic != nil {
			det["stack"] = rr.o.Stack
			c.Violation(cs, "panic", PanicSig(rr.o.Panic, rr.o.Stack), det)
			return
		}
	}
	// (2) invalid names are rejected
	for _, rr := range results {
		if rr.invalid && rr.o.Err == nil {
			c.Violation(cs, "invalid-name.accepted", "", det)
			break
		}
	}
	// (3) without massive, a rejected tree leaves nothing behind. From-Root: every root is its own
	// call, so only all-invalid forests must leave the target untouched; From-Markdown: one call.
	if !massive && anyInvalid && len(inside) > 0 {
		allInvalid := true
		for _, b := range invalidRoot {
			if !b {
				allInvalid = false
			}
		}
		if !rt.FromRoot || allInvalid {
			c.Violation(cs, "invalid-name.created-something", "", det)
		}
	}
	if anyInvalid {
		c.Count("must_reject_cases", 1)
	}
}
