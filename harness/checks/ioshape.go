package checks

import (
	"bufio"
	"bytes"
	"io"
	"os"
	"strings"
	"sync"
	"sync/atomic"

	"github.com/ddddddO/gtree"

	"gtverif/mon"
)

// The library is handed "an io.Reader" and "an io.Writer". Every check that only wants the
// document delivered / the output recorded takes them from here, so that the concrete type and
// the read/write pattern rotate from call to call (a harness that always passes *strings.Reader
// and one recorder type cannot see a break that depends on the kind of reader or writer).
// The rotation is a function of the case index and the number of calls made since the case
// began, so that a replay of the case sees the same sequence.

var ioSeq atomic.Uint64

// SetIOSeq restarts the rotation for the case with this index.
func SetIOSeq(idx int) {
	ioSeq.Store(uint64(idx) * 2654435761 % 1000003)
	closeReaderFiles()
}

// files handed out as readers stay open until the next case begins
var (
	readerFilesMu sync.Mutex
	readerFiles   []*os.File
)

func closeReaderFiles() {
	readerFilesMu.Lock()
	for _, f := range readerFiles {
		f.Close()
	}
	readerFiles = readerFiles[:0]
	readerFilesMu.Unlock()
}

// fileReader returns doc as an open regular file (already unlinked), positioned at its start.
func fileReader(doc string) io.Reader {
	if IOTmpDir == "" {
		return nil
	}
	f, err := os.CreateTemp(IOTmpDir, "in")
	if err != nil {
		return nil
	}
	os.Remove(f.Name())
	if _, err := f.WriteString(doc); err != nil {
		f.Close()
		return nil
	}
	if _, err := f.Seek(0, io.SeekStart); err != nil {
		f.Close()
		return nil
	}
	readerFilesMu.Lock()
	if len(readerFiles) >= 400 {
		// a case that makes very many calls: the calls that got the OLDEST files have long returned
		for _, old := range readerFiles[:200] {
			old.Close()
		}
		readerFiles = append(readerFiles[:0], readerFiles[200:]...)
	}
	readerFiles = append(readerFiles, f)
	readerFilesMu.Unlock()
	return f
}

// IOTmpDir is where the *os.File writer kind puts its file ("" = that kind is skipped).
var IOTmpDir string

const numReaderKinds = 9

var readerKindNames = []string{"strings.Reader", "bytes.Buffer", "one-byte", "data-with-EOF", "bufio.Reader(16)", "half-buffer", "zero-length-reads", "7-byte-chunks", "regular *os.File"}

// shapedReader delivers doc completely and without error, in an awkward pattern.
type shapedReader struct {
	doc   string
	pos   int
	kind  int
	calls int
}

func (r *shapedReader) Read(p []byte) (int, error) {
	r.calls++
	if len(p) == 0 {
		return 0, nil
	}
	rest := len(r.doc) - r.pos
	if rest == 0 {
		return 0, io.EOF
	}
	n := len(p)
	switch r.kind {
	case 2:
		n = 1
	case 5:
		n = (len(p) + 1) / 2
	case 6:
		if r.calls%3 == 0 {
			return 0, nil // allowed by the io.Reader contract (discouraged, not forbidden)
		}
	case 7:
		n = 7
	}
	if n > len(p) {
		n = len(p)
	}
	if n > rest {
		n = rest
	}
	copy(p, r.doc[r.pos:r.pos+n])
	r.pos += n
	if r.kind == 3 && r.pos == len(r.doc) {
		return n, io.EOF // the last data and EOF in one call
	}
	return n, nil
}

// MDReader returns a reader that delivers doc; its kind rotates.
func MDReader(doc string) io.Reader {
	k := int(ioSeq.Add(1) % numReaderKinds)
	if k == 8 {
		if f := fileReader(doc); f != nil {
			readerKindUsed[k].Add(1)
			return f
		}
		k = 0
	}
	readerKindUsed[k].Add(1)
	switch k {
	case 0:
		return strings.NewReader(doc)
	case 1:
		return bytes.NewBufferString(doc)
	case 4:
		return bufio.NewReaderSize(strings.NewReader(doc), 16)
	}
	return &shapedReader{doc: doc, kind: k}
}

var readerKindUsed [numReaderKinds]atomic.Int64
var writerKindUsed [numWriterKinds]atomic.Int64

const numWriterKinds = 6

var writerKindNames = []string{"recorder", "recorder+WriteString", "recorder+ReadFrom", "func-typed writer", "*os.File", "recorder by value in a struct"}

// stringWriter also offers WriteString (io.WriteString and fmt prefer it when present).
type stringWriter struct{ *mon.RecWriter }

func (w stringWriter) WriteString(s string) (int, error) { return w.RecWriter.Write([]byte(s)) }

// readerFromWriter also offers ReadFrom (io.Copy prefers it when present).
type readerFromWriter struct{ *mon.RecWriter }

func (w readerFromWriter) ReadFrom(r io.Reader) (int64, error) {
	var total int64
	buf := make([]byte, 512)
	for {
		n, err := r.Read(buf)
		if n > 0 {
			m, werr := w.RecWriter.Write(buf[:n])
			total += int64(m)
			if werr != nil {
				return total, werr
			}
		}
		if err == io.EOF {
			return total, nil
		}
		if err != nil {
			return total, err
		}
	}
}

// funcWriter is a writer whose dynamic type is not comparable.
type funcWriter func([]byte) (int, error)

func (f funcWriter) Write(p []byte) (int, error) { return f(p) }

type wrapWriter struct {
	pad [3]int
	w   *mon.RecWriter
}

func (w wrapWriter) Write(p []byte) (int, error) { return w.w.Write(p) }

// OutWriter returns a writer that accepts everything and a function returning what it accepted.
func OutWriter() (io.Writer, func() []byte) {
	k := int((ioSeq.Add(1) / 3) % numWriterKinds)
	if k == 4 && IOTmpDir == "" {
		k = 0
	}
	rec := mon.NewRecWriter()
	switch k {
	case 1:
		writerKindUsed[k].Add(1)
		return stringWriter{rec}, rec.Bytes
	case 2:
		writerKindUsed[k].Add(1)
		return readerFromWriter{rec}, rec.Bytes
	case 3:
		writerKindUsed[k].Add(1)
		return funcWriter(rec.Write), rec.Bytes
	case 4:
		f, err := os.CreateTemp(IOTmpDir, "out")
		if err == nil {
			writerKindUsed[k].Add(1)
			return f, func() []byte {
				b, _ := os.ReadFile(f.Name())
				f.Close()
				os.Remove(f.Name())
				return b
			}
		}
	case 5:
		writerKindUsed[k].Add(1)
		return wrapWriter{w: rec}, rec.Bytes
	}
	writerKindUsed[0].Add(1)
	return rec, rec.Bytes
}

var poisonCalls atomic.Int64

// Poison makes, before every fourth call that asks for it, the same call with a writer that
// fails (at the first, second or third write; sometimes only transiently). The result is
// ignored: the point is the state such a failed call may leave behind in the library (pooled
// buffers, package-level scratch space) for the healthy call that follows and is judged.
func Poison(doc string, opts ...gtree.Option) {
	n := ioSeq.Add(1)
	if n%4 != 0 {
		return
	}
	w := mon.NewRecWriter()
	w.FailAt = int(n/4) % 3
	w.Transient = (n/4)%5 == 0
	_ = Guard(func() error { return gtree.OutputFromMarkdown(w, strings.NewReader(doc), opts...) })
	poisonCalls.Add(1)
}

// IOShapeCounts reports how often each reader / writer kind was handed to the library.
func IOShapeCounts() map[string]int64 {
	out := map[string]int64{}
	for i, n := range readerKindNames {
		if v := readerKindUsed[i].Load(); v > 0 {
			out["reader."+n] = v
		}
	}
	if v := poisonCalls.Load(); v > 0 {
		out["failed-writer-call-before-the-judged-call"] = v
	}
	for i, n := range writerKindNames {
		if v := writerKindUsed[i].Load(); v > 0 {
			out["writer."+n] = v
		}
	}
	return out
}
