package checks

import (
	"errors"
	"os"
	"runtime"
	"path/filepath"
	"strconv"
	"strings"

	"github.com/ddddddO/gtree"

	"gtverif/gen"
	"gtverif/model"
	"gtverif/mon"
)

// C06 — mkdir creates exactly the tree. Oracle: jail snapshot conservation: after a nil return
// `after - before` equals the model's paths with the model's kinds (files empty), nothing that
// existed changed; a pre-existing root gives ErrExistPath and an unchanged filesystem; an OS
// refusal gives a non-nil error.

func init() {
	Register(&Check{Prop: "C06", Run: runC06, Replay: func(c *Ctx, cs *Case) { evalC06(c, cs) }})
}

var c06Classes = []int{gen.ClassPlain, gen.ClassExt, gen.ClassUnicode, gen.ClassQuoting, gen.ClassBlankEdge, gen.ClassBullet, gen.ClassCase}

func fsSafeForest(f model.Forest) {
	var fix func(n *model.Node)
	fix = func(n *model.Node) {
		if !fsSafeName(n.Name) {
			n.Name = "s" + strings.NewReplacer("/", "_", "\x00", "0").Replace(n.Name)
			if len(n.Name) > 200 {
				n.Name = n.Name[:200]
			}
		}
		for _, k := range n.Kids {
			fix(k)
		}
	}
	for _, r := range f {
		fix(r)
	}
	gen.DistinctRoots(f)
}

func runC06(c *Ctx) bool {
	nMax := c.Pick(5, 6)
	gen.ForEachLabeled(nMax, 2, ExtAlphabet, func(i int, f model.Forest) {
		if !c.Mine(i) {
			return
		}
		gen.DistinctRoots(f)
		cs := &Case{Idx: i, Kind: "exhaustive", Seed: uint64(i)}
		cs.Depths, cs.Names = gen.Depths(f)
		c.Journal(cs)
		evalC06(c, cs)
		c.Progress(false)
	})
	base := gen.CountLabeled(nMax, 2)
	nRand := c.Pick(2500, 50000)
	for j := 0; j < nRand; j++ {
		idx := base + j
		if !c.Mine(idx) {
			continue
		}
		r := gen.New(c.Seed, 601, uint64(j))
		f := gen.RandForest(r, []int{5, 12, 30}[r.Intn(3)], r.Range(2, 7), c06Classes, []int{0, 20}[r.Intn(2)])
		fsSafeForest(f)
		cs := &Case{Idx: idx, Kind: "random", Seed: r.Uint64()}
		cs.Depths, cs.Names = gen.Depths(f)
		c.Journal(cs)
		evalC06(c, cs)
		c.Progress(false)
	}
	return true
}

// target states
const (
	tsEmpty = iota
	tsMissing
	tsPopulated
	tsDefaultCwd
	tsExplicitEmpty // WithTargetDir("") given explicitly, target = working directory
	tsTrailingSlash // the target path ends in "/"
	tsRelDot        // a relative target "./target/." from the parent directory
	tsViaLink       // the target is addressed through a symbolic link to it
	numTS
)

func evalC06(c *Ctx, cs *Case) {
	f := gen.FromDepths(cs.Depths, cs.Names)
	merged := model.Merge(f)
	fkey := f.String()
	r := gen.New(cs.Seed, 66)
	doc := gen.Spell(f, gen.Canonical)
	nontrivial := merged.Size() >= 2
	extIdx := allExt()
	states := []int{tsEmpty, tsMissing, tsPopulated, tsDefaultCwd, tsExplicitEmpty, tsTrailingSlash, tsRelDot, tsViaLink}
	routes := []int{0, 1, 2, 3}
	if cs.Kind != "exhaustive" {
		extIdx = []int{r.Intn(len(ExtLists)), r.Intn(len(ExtLists))}
		states = []int{r.Intn(numTS)}
	} else if c.Quick() {
		// rotate to keep the quick tier short; the thorough tier takes the full product
		states = []int{int(cs.Seed % uint64(numTS)), int((cs.Seed + 1) % uint64(numTS))}
		routes = []int{0, 1, 2 + int(cs.Seed%uint64(2))}
		e0 := int(cs.Seed % uint64(len(ExtLists)))
		extIdx = []int{e0, (e0 + 3) % len(ExtLists), (e0 + 5) % len(ExtLists)}
	}
	for _, ei := range extIdx {
		exts := ExtLists[ei]
		for _, st := range states {
			for _, ri := range routes {
				c06Success(c, cs, f, merged, doc, fkey, ei, exts, st, mkdirRoutes[ri], nontrivial)
			}
		}
	}
	// pre-existing roots: every non-empty subset (<= 3 roots) as directory or as file
	if (len(merged) <= 3 && (!c.Quick() || cs.Seed%2 == 0)) || cs.Kind != "exhaustive" {
		n := len(merged)
		masks := []int{}
		if n <= 3 {
			for m := 1; m < 1<<n; m++ {
				masks = append(masks, m)
			}
		} else {
			masks = []int{1 << r.Intn(n), 1<<(n-1) | 1}
		}
		for _, m := range masks {
			for kind := 0; kind < numPre; kind++ {
				for _, ri := range []int{0, 1} {
					c06Existing(c, cs, f, merged, doc, fkey, m, kind, mkdirRoutes[ri])
				}
			}
		}
	}
	// the root "." IS the target directory: it exists whenever the target does
	if cs.Kind != "exhaustive" || !c.Quick() || cs.Seed%4 == 1 {
		c06DotRoot(c, cs, merged, fkey)
	}
	// OS refusals
	c06Refusals(c, cs, f, fkey, r, cs.Kind == "exhaustive" && (!c.Quick() || cs.Seed%3 == 0))
	if nontrivial && c.WantSample(cs.Kind) {
		c.Sample(cs.Kind, map[string]any{"doc": doc, "ext": ExtLists[extIdx[0]], "expected": expectedCreated(merged, ExtLists[extIdx[0]], "target")})
	}
}

// prepare the target state; returns the target path to pass (""=default via cwd), the prefix
// of the target relative to the jail and the extra diff lines allowed for missing ancestors.
func c06Target(j *mon.Jail, st int) (target, prefix string, allowed []string) {
	switch st {
	case tsMissing:
		return filepath.Join(j.Target, "m1", "m2"), j.Rel + "/m1/m2", []string{"+d " + j.Rel + "/m1", "+d " + j.Rel + "/m1/m2"}
	case tsPopulated:
		os.MkdirAll(filepath.Join(j.Target, "zz_unrelated", "sub"), 0o750)
		os.WriteFile(filepath.Join(j.Target, "zz_unrelated", "sub", "f"), []byte("data"), 0o640)
		os.WriteFile(filepath.Join(j.Target, "zz_file.go"), []byte("package x"), 0o600)
		return j.Target, j.Rel, nil
	case tsDefaultCwd:
		return "", j.Rel, nil
	case tsExplicitEmpty:
		return explicitEmptyTarget, j.Rel, nil
	case tsTrailingSlash:
		return j.Target + "/", j.Rel, nil
	case tsRelDot:
		return "./target/.", j.Rel, nil
	case tsViaLink:
		os.Symlink("target", j.Target+"-link")
		return j.Target + "-link", j.Rel, nil
	}
	return j.Target, j.Rel, nil
}

var c06Quiet = mon.NewLeakMonitor()

func c06Success(c *Ctx, cs *Case, f, merged model.Forest, doc, fkey string, ei int, exts []string, st int, rt fsRoute, nontrivial bool) {
	j, err := mon.NewJail(c.TmpDir, true)
	if err != nil {
		c.Inconclusive(cs, "jail: "+err.Error())
		return
	}
	defer j.Remove()
	target, prefix, allowed := c06Target(j, st)
	before := j.Snap()
	// a quarter of the calls run in massive mode (the result on a fresh target must be the same)
	massive := (int(cs.Seed%4)+ei+st)%4 == 0 && !rt.Alias
	opts := fsOpts(target, exts, ei != 0, false, massive, false)
	stray, strayName := strayOptions("mkdir", int(cs.Seed%7)+ei+st)
	opts = append(opts, stray...)
	var outs []Outcome
	call := func() {
		if rt.FromRoot {
			for _, root := range f {
				outs = append(outs, mkdirCall(rt, "", root, opts))
			}
		} else {
			outs = append(outs, mkdirCall(rt, doc, nil, opts))
		}
	}
	base := runtime.NumGoroutine()
	if massive {
		cs.Entry = rt.Name + "[massive]"
		cs.SetDoc(doc)
		c.Rejournal(cs)
		cs.Doc, cs.DocText = nil, ""
		defer c06Quiet.Quiesce(base)
	}
	if st == tsDefaultCwd || st == tsExplicitEmpty {
		if err := withCwd(j.Target, call); err != nil {
			c.Inconclusive(cs, "chdir: "+err.Error())
			return
		}
	} else if st == tsRelDot {
		if err := withCwd(filepath.Dir(j.Target), call); err != nil {
			c.Inconclusive(cs, "chdir: "+err.Error())
			return
		}
	} else {
		call()
	}
	if massive {
		c06Quiet.Quiesce(base)
	}
	openAfter := mon.OpenUnder(j.Root) // (before anything else: the files of a finished call are closed)
	after := j.Snap()
	if len(openAfter) > 0 {
		cs.Entry = rt.Name + map[bool]string{true: "[massive]", false: ""}[massive]
		c.Violation(cs, "mkdir.left-descriptors-open", "", map[string]any{"forest": fkey, "open": openAfter})
		cs.Entry = ""
	}
	c.Count("calls_followed_by_a_look_at_the_open_descriptors", 1)
	cs.Entry = rt.Name + map[bool]string{true: "[massive]", false: ""}[massive]
	cs.Opt = map[string]string{"ext": strconv.Itoa(ei), "state": strconv.Itoa(st), "stray_options": strayName}
	defer func() { cs.Entry, cs.Opt = "", nil }()
	c.Eval(gen.HashString(fkey+"\x00"+rt.Name+strconv.Itoa(ei*10+st)), nontrivial)
	c.SetAdd("entries", rt.Name)
	c.SetAdd("target_states", []string{"empty", "missing-nested", "pre-populated", "default-cwd", "explicit-empty-string", "trailing-slash", "relative-dot", "via-symlink"}[st])
	diff := mon.Diff(before, after)
	det := map[string]any{"forest": fkey, "doc": doc, "ext": exts, "state": st, "diff": diff}
	for _, o := range outs {
		if o.Panic != nil {
			det["stack"] = o.Stack
			c.Violation(cs, "panic", PanicSig(o.Panic, o.Stack), det)
			return
		}
		if o.Err != nil {
			det["err"] = o.Err.Error()
			c.Violation(cs, "mkdir.error-on-fresh-target", "", det)
			return
		}
	}
	want := expectedCreated(merged, exts, prefix)
	// ancestors of a missing target may be created
	var got []string
	al := map[string]bool{}
	for _, a := range allowed {
		al[a] = true
	}
	for _, d := range diff {
		if !al[d] {
			got = append(got, d)
		}
	}
	if !sameStrings(got, want) {
		det["want"] = want
		c.Violation(cs, "mkdir.created-set-differs", "", det)
		return
	}
	if !filesAllEmpty(after, want) {
		c.Violation(cs, "mkdir.file-not-empty", "", det)
	}
}

// the ways a root can exist already
const (
	preDir = iota
	preFile
	preLinkDir      // a symbolic link to a directory outside the target
	preLinkFile     // a symbolic link to a regular file outside the target
	preLinkDangling // a symbolic link whose destination (outside the target) does not exist
	numPre
)

var preNames = []string{"dir", "file", "symlink-to-dir", "symlink-to-file", "dangling-symlink"}

// c06Preexist makes the root name exist in the target in the given way.
func c06Preexist(j *mon.Jail, name string, kind int) {
	p := filepath.Join(j.Target, name)
	switch kind {
	case preFile:
		os.WriteFile(p, []byte("old"), 0o644)
	case preDir:
		os.MkdirAll(filepath.Join(p, "old-sub"), 0o755)
		os.WriteFile(filepath.Join(p, "old-sub", "k"), []byte("k"), 0o644)
	case preLinkDir:
		os.Symlink("../sentinel-a", p)
	case preLinkFile:
		os.Symlink("../sentinel-file", p)
	case preLinkDangling:
		os.Symlink("../target-sibling/not-there", p)
	}
}

func c06Existing(c *Ctx, cs *Case, f, merged model.Forest, doc, fkey string, mask int, kind int, rt fsRoute) {
	j, err := mon.NewJail(c.TmpDir, true)
	if err != nil {
		c.Inconclusive(cs, "jail: "+err.Error())
		return
	}
	defer j.Remove()
	for i, root := range merged {
		if mask&(1<<i) != 0 {
			c06Preexist(j, root.Name, kind)
		}
	}
	cs.Entry = rt.Name
	cs.Opt = map[string]string{"mask": strconv.Itoa(mask), "pre": preNames[kind]}
	c.SetAdd("preexisting_kinds", preNames[kind])
	defer func() { cs.Entry, cs.Opt = "", nil }()
	// half of the cases configure extensions, so that a pre-existing root may be one that the
	// call would create as a file
	var exts []string
	if (mask+kind+int(cs.Seed%2))%2 == 1 {
		exts = ExtLists[3]
	}
	cs.Opt["ext"] = strings.Join(exts, ",")
	opts := fsOpts(j.Target, exts, exts != nil, false, false, false)
	viaCwd := (mask+kind)%3 != 0
	if viaCwd {
		// two thirds of the cases address the target as the working directory: default or WithTargetDir("")
		if mask%2 == 0 {
			opts = fsOpts("", exts, exts != nil, false, false, false)
		} else {
			opts = fsOpts(explicitEmptyTarget, exts, exts != nil, false, false, false)
		}
		old, _ := os.Getwd()
		os.Chdir(j.Target)
		defer os.Chdir(old)
	}
	if !rt.FromRoot {
		before := j.Snap()
		o := mkdirCall(rt, doc, nil, opts)
		after := j.Snap()
		if !viaCwd {
			// the same pre-state in massive mode: the pre-existing root must still be refused
			// (whether other roots were created before the refusal is known finding KF-C10-1 of C10)
			jm, errm := mon.NewJail(c.TmpDir, true)
			if errm == nil {
				for i, root := range merged {
					if mask&(1<<i) != 0 {
						c06Preexist(jm, root.Name, kind)
					}
				}
				bm := jm.Snap()
				cs.Entry = rt.Name + "[massive]"
				cs.SetDoc(doc)
				c.Rejournal(cs)
				cs.Doc, cs.DocText = nil, ""
				b0 := runtime.NumGoroutine()
				mo := mkdirCall(rt, doc, nil, fsOpts(jm.Target, exts, exts != nil, false, true, false))
				c06Quiet.Quiesce(b0)
				c.Eval(gen.HashString(fkey+"\x00existM"+rt.Name+strconv.Itoa(mask*8+kind)), true)
				_, outside := mon.Under(mon.Diff(bm, jm.Snap()), jm.Rel)
				if mo.Panic != nil {
					c.Violation(cs, "panic", PanicSig(mo.Panic, mo.Stack), map[string]any{"forest": fkey, "doc": doc})
				} else if !errors.Is(mo.Err, gtree.ErrExistPath) {
					c.Violation(cs, "exist.wrong-error", "massive", map[string]any{"forest": fkey, "doc": doc, "mask": mask, "pre": preNames[kind], "err": errStr(mo.Err)})
				} else if len(outside) != 0 {
					c.Violation(cs, "exist.changed-outside-target", "massive", map[string]any{"forest": fkey, "doc": doc, "mask": mask, "pre": preNames[kind], "outside": outside})
				}
				jm.Remove()
				cs.Entry = rt.Name
			}
		}
		c.Eval(gen.HashString(fkey+"\x00exist"+rt.Name+strconv.Itoa(mask*8+kind)), true)
		c.Count("preexisting_cases", 1)
		det := map[string]any{"forest": fkey, "doc": doc, "mask": mask, "pre": preNames[kind], "err": errStr(o.Err), "diff": mon.Diff(before, after)}
		switch {
		case o.Panic != nil:
			c.Violation(cs, "panic", PanicSig(o.Panic, o.Stack), det)
		case !errors.Is(o.Err, gtree.ErrExistPath):
			c.Violation(cs, "exist.wrong-error", "", det)
		case len(mon.Diff(before, after)) != 0:
			c.Violation(cs, "exist.fs-changed", "", det)
		}
		return
	}
	// From-Root: one call per root; each pre-existing root must be refused without change,
	// every other root created exactly
	for i, root := range f {
		before := j.Snap()
		o := mkdirCall(rt, "", root, opts)
		after := j.Snap()
		diff := mon.Diff(before, after)
		c.Eval(gen.HashString(fkey+"\x00existR"+rt.Name+strconv.Itoa((mask*8+i)*8+kind)), true)
		c.Count("preexisting_cases", 1)
		det := map[string]any{"forest": fkey, "root": root.Name, "mask": mask, "pre": preNames[kind], "err": errStr(o.Err), "diff": diff}
		if o.Panic != nil {
			c.Violation(cs, "panic", PanicSig(o.Panic, o.Stack), det)
			continue
		}
		if mask&(1<<i) != 0 {
			if !errors.Is(o.Err, gtree.ErrExistPath) {
				c.Violation(cs, "exist.wrong-error", "", det)
			} else if len(diff) != 0 {
				c.Violation(cs, "exist.fs-changed", "", det)
			}
		} else {
			want := expectedCreated(model.Merge(model.Forest{root}), exts, j.Rel)
			if o.Err != nil {
				c.Violation(cs, "mkdir.error-on-fresh-target", "", det)
			} else if !sameStrings(diff, want) {
				det["want"] = want
				c.Violation(cs, "mkdir.created-set-differs", "", det)
			}
		}
	}
}

func c06Refusals(c *Ctx, cs *Case, f model.Forest, fkey string, r *gen.Rand, allPositions bool) {
	depths, names := gen.Depths(f)
	// (i) an over-long name at one node position (every position in the exhaustive part)
	positions := []int{r.Intn(len(names))}
	if allPositions {
		positions = positions[:0]
		for i := range names {
			positions = append(positions, i)
		}
	}
	for _, pos := range positions {
		nn := append([]string(nil), names...)
		nn[pos] = strings.Repeat("L", 256)
		g := gen.FromDepths(depths, nn)
		doc := gen.Spell(g, gen.Canonical)
		for _, rt := range []fsRoute{mkdirRoutes[0], mkdirRoutes[1]} {
			j, err := mon.NewJail(c.TmpDir, true)
			if err != nil {
				continue
			}
			opts := fsOpts(j.Target, nil, false, false, false, false)
			var o Outcome
			if rt.FromRoot {
				// the root that contains the over-long name
				var root *model.Node
				k := -1
				for _, x := range g {
					if k+x.Size() >= pos {
						root = x
						break
					}
					k += x.Size()
				}
				o = mkdirCall(rt, "", root, opts)
			} else {
				o = mkdirCall(rt, doc, nil, opts)
			}
			cs.Entry = rt.Name
			c.Eval(gen.HashString(fkey+"\x00long"+rt.Name+strconv.Itoa(pos)), true)
			c.Count("os_refusals", 1)
			det := map[string]any{"forest": fkey, "pos": pos, "err": errStr(o.Err)}
			if o.Panic != nil {
				c.Violation(cs, "panic", PanicSig(o.Panic, o.Stack), det)
			} else if o.Err == nil {
				c.Violation(cs, "refusal.reported-success", "name-too-long", det)
			}
			cs.Entry = ""
			j.Remove()
		}
	}
	// (ii) the target path runs through a regular file
	doc := gen.Spell(f, gen.Canonical)
	for _, rt := range []fsRoute{mkdirRoutes[0], mkdirRoutes[1]} {
		j, err := mon.NewJail(c.TmpDir, true)
		if err != nil {
			continue
		}
		os.WriteFile(filepath.Join(j.Target, "plainfile"), []byte("x"), 0o644)
		opts := fsOpts(filepath.Join(j.Target, "plainfile", "sub"), nil, false, false, false, false)
		before := j.Snap()
		var o Outcome
		if rt.FromRoot {
			o = mkdirCall(rt, "", f[0], opts)
		} else {
			o = mkdirCall(rt, doc, nil, opts)
		}
		after := j.Snap()
		cs.Entry = rt.Name
		c.Eval(gen.HashString(fkey+"\x00notdir"+rt.Name), true)
		c.Count("os_refusals", 1)
		det := map[string]any{"forest": fkey, "err": errStr(o.Err), "diff": mon.Diff(before, after)}
		if o.Panic != nil {
			c.Violation(cs, "panic", PanicSig(o.Panic, o.Stack), det)
		} else if o.Err == nil {
			c.Violation(cs, "refusal.reported-success", "target-through-file", det)
		}
		cs.Entry = ""
		j.Remove()
	}
}

// c06DotRoot: a tree whose root is named "." (a legal single path element that names the target
// itself) with the forest below it. On an existing target - empty or not - the root exists, so the
// call must fail with ErrExistPath and change nothing.
func c06DotRoot(c *Ctx, cs *Case, merged model.Forest, fkey string) {
	dot := &model.Node{Name: ".", Kids: merged}
	doc := gen.Spell(model.Forest{dot}, gen.Canonical)
	for _, populated := range []bool{false, true} {
		for ri, rt := range []fsRoute{mkdirRoutes[0], mkdirRoutes[1]} {
			for _, massive := range []bool{false, true} {
				if massive && (int(cs.Seed)+ri)%2 == 0 {
					continue
				}
				j, err := mon.NewJail(c.TmpDir, true)
				if err != nil {
					return
				}
				if populated {
					os.MkdirAll(filepath.Join(j.Target, "zz_unrelated"), 0o755)
				}
				before := j.Snap()
				exts := ExtLists[3]
				base := runtime.NumGoroutine()
				cs.Entry = rt.Name + map[bool]string{true: "[massive]", false: ""}[massive]
				if massive {
					cs.SetDoc(doc)
					c.Rejournal(cs)
					cs.Doc, cs.DocText = nil, ""
				}
				o := mkdirCall(rt, doc, dot, fsOpts(j.Target, exts, true, false, massive, false))
				if massive {
					c06Quiet.Quiesce(base)
				}
				diff := mon.Diff(before, j.Snap())
				j.Remove()
				c.Eval(gen.HashString(fkey+"\x00dotroot"+cs.Entry+strconv.FormatBool(populated)), true)
				c.Count("dot_root_cases", 1)
				det := map[string]any{"doc": doc, "target_populated": populated, "err": errStr(o.Err), "diff": diff}
				switch {
				case o.Panic != nil:
					c.Violation(cs, "panic", PanicSig(o.Panic, o.Stack), det)
				case !errors.Is(o.Err, gtree.ErrExistPath):
					c.Violation(cs, "exist.wrong-error", "dot-root", det)
				case len(diff) != 0:
					c.Violation(cs, "exist.fs-changed", "dot-root", det)
				}
				cs.Entry = ""
			}
		}
	}
}
