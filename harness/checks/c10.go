package checks

import (
	"path/filepath"
	"fmt"
	"syscall"
	"context"
	"os"
	"runtime"
	"sort"
	"strconv"
	"strings"
	"sync"
	"time"

	"github.com/ddddddO/gtree"

	"gtverif/gen"
	"gtverif/model"
	"gtverif/mon"
)

// C10 — massive mode is observationally the simple mode up to the order of roots. Relational
// oracle: the simple-mode result of the same build is the reference; the massive result must be
// an exact cover of its per-root blocks (text, dry-run), the same multiset of JSON lines / YAML
// documents, the same walk rows (order preserved inside a root), the same filesystem, the same
// verify verdict, and it must return an error iff the simple mode does. Every scenario is run
// under several GOMAXPROCS values and perturbation profiles (yielding writer/callback, slow
// chunked reader, seeded delays at the pipeline hand-over hooks).

func init() {
	Register(&Check{Prop: "C10", Run: runC10, Replay: func(c *Ctx, cs *Case) {
		if cs.Kind == "rootless-or-dot" {
			evalC10Rootless(c, cs)
			return
		}
		evalC10(c, cs)
	}})
}

var c10Ops = []string{"text", "branch", "json", "yaml", "dryrun", "walk", "mkdir", "verify", "verify.strict", "dryrun.branch", "walk.branch", "mkdir.noext"}

func runC10(c *Ctx) bool {
	n := c.Pick(1600, 20000)
	if c.Race {
		n = c.Pick(160, 6000)
	}
	for j := 0; j < n; j++ {
		if !c.Mine(j) {
			continue
		}
		r := gen.New(c.Seed, 1001, uint64(j))
		cs := &Case{Idx: j, Kind: "wellformed", Seed: r.Uint64()}
		nRoots := []int{1, 2, 3, 5, 12, 40}[r.Intn(6)]
		if j%32 == 11 {
			nRoots = []int{70, 140}[(j/32)%2] // more roots than any batch or pool size
			cs.AddTag("many-roots")
		}
		var f model.Forest
		for len(f) < nRoots {
			blk := gen.RandForest(r, r.Range(1, 8), 4, []int{gen.ClassPlain, gen.ClassExt, gen.ClassUnicode, gen.ClassBullet}, []int{0, 20}[r.Intn(2)])
			f = append(f, blk[0])
		}
		if j%60 == 7 {
			// large root blocks: each renders to more than one 4096-byte buffer
			f = nil
			for k := r.Range(3, 8); k > 0; k-- {
				n := r.Range(150, 400)
				depths := make([]int, n)
				names := make([]string, n)
				for i := range depths {
					switch {
					case i == 0:
						depths[i] = 1
					case i == 1:
						depths[i] = 2
					default:
						depths[i] = 2 + (i*7+k)%4
						if depths[i] > depths[i-1]+1 {
							depths[i] = depths[i-1] + 1
						}
					}
					names[i] = "n" + strconv.Itoa(k) + "-" + strconv.Itoa(i) + "-padding-padding"
				}
				names[0] = "big" + strconv.Itoa(k)
				f = append(f, gen.FromDepths(depths, names)[0])
			}
			cs.AddTag("large-blocks")
		}
		if j%396 == 36 || j%396 == 37 { // (indices whose operation is text / branch: j%12 is 0 or 1)
			// two roots whose rendering exceeds 64 KiB each, next to small ones (judged with a slow writer)
			f = nil
			for k := 0; k < 8; k++ {
				n := []int{2600, 3, 2600, 2, 2600, 2600, 4, 2600}[k]
				root := &model.Node{Name: "huge" + strconv.Itoa(k)}
				for i := 1; i < n; i++ {
					root.Kids = append(root.Kids, &model.Node{Name: "n" + strconv.Itoa(k) + "-" + strconv.Itoa(i) + "-padding-padding-"})
				}
				f = append(f, root)
				if n > 100 && j%396 == 36 {
					// a steady stream of small roots behind every huge one: while one worker is still
					// writing its 80 KiB block the others have something to write all the time
					for i := 0; i < 250; i++ {
						f = append(f, &model.Node{Name: "small" + strconv.Itoa(k) + "-" + strconv.Itoa(i), Kids: []*model.Node{{Name: "kid"}}})
					}
				}
			}
			cs.AddTag("large-blocks")
			cs.AddTag("huge-blocks")
		}
		c08Safe(f)
		if r.Chance(1, 6) && len(f) > 1 {
			// equal root names (allowed for outputs; filesystem ops use distinct roots)
			f[len(f)-1].Name = f[0].Name
			cs.AddTag("equal-root-names")
		}
		sp := gen.RandSpelling(r)
		if sp.Heading > 0 && !gen.CanHeading(f) {
			sp.Heading = 0
		}
		sp.LeadBlank = r.Chance(1, 5)
		if sp.Heading > 0 {
			cs.AddTag("heading-roots")
		}
		if sp.LeadBlank {
			cs.AddTag("leading-blank")
		}
		doc := gen.Spell(f, sp)
		if r.Chance(1, 4) {
			// malformed: one injection (bullet-root spelling only)
			sp.Heading, sp.LeadBlank = 0, false
			cs.Tags = nil
			lines := gen.SpellLines(f, sp)
			for try := 0; try < 20; try++ {
				class := gen.AllClasses[r.Intn(len(gen.AllClasses))]
				if inj, _, ok := gen.Inject(lines, sp, class, r.Intn(len(lines)), r.Intn(2)); ok {
					doc = gen.Join(inj, sp.CRLF, sp.FinalNL)
					cs.Kind = "malformed"
					cs.AddTag(class)
					break
				}
			}
			if cs.Kind != "malformed" {
				doc = gen.Spell(f, sp)
			}
		}
		if j%20 == 3 {
			// a name that is not a path element (mkdir, verify and dry run reject it; the other
			// operations do not care), half of the time on a CHILDLESS ROOT
			depths, names := gen.Depths(f)
			pos := r.Intn(len(names))
			if j%40 == 3 {
				f = append(f, &model.Node{Name: "lonely"})
				depths, names = gen.Depths(f)
				pos = len(names) - 1
			}
			names[pos] = []string{"a/b", "..", "x/../../y", "/abs"}[r.Intn(4)]
			f = gen.FromDepths(depths, names)
			doc = gen.Spell(f, gen.Canonical)
			cs.Kind = "invalid-name"
			cs.Tags = []string{"invalid-name"}
		}
		if j%40 == 13 {
			// a line beyond the scanner's 64 KiB limit, as the first, a middle or the last line:
			// the simple mode reports it, so the massive mode must
			ls := strings.Split(gen.Spell(f, gen.Canonical), "\n")
			if ls[len(ls)-1] == "" {
				ls = ls[:len(ls)-1]
			}
			pos := []int{0, len(ls) / 2, len(ls) - 1}[(j/40)%3]
			ls[pos] = "- " + strings.Repeat("x", 66000+j%5000)
			doc = strings.Join(ls, "\n") + "\n"
			cs.Kind = "malformed"
			cs.Tags = []string{"overlong-line"}
		}
		if j%16 == 9 && cs.Kind == "wellformed" {
			// carriage returns in front of the line terminator ("name\r\n" in an LF document,
			// "name\r\r\n" in a CRLF one): whatever the simple mode makes of them, the massive mode does
			ls := strings.SplitAfter(doc, "\n")
			for k := range ls {
				if strings.HasSuffix(ls[k], "\n") && len(strings.TrimSpace(ls[k])) > 0 && r.Chance(1, 2) {
					ls[k] = ls[k][:len(ls[k])-1] + "\r\n"
				}
			}
			doc = strings.Join(ls, "")
			cs.AddTag("carriage-return-before-terminator")
		}
		cs.Depths, cs.Names = gen.Depths(f)
		cs.SetDoc(doc)
		cs.Opt = map[string]string{"op": c10Ops[j%len(c10Ops)]}
		c.Journal(cs)
		evalC10(c, cs)
		c.Progress(false)
	}
	// documents without any root (empty, blank) and documents whose root is "." (the target itself),
	// made into a target that exists, that does not exist yet, and that is a regular file
	for k, d := range []string{"", "\n", "  \n\n", "- .\n  - kid\n  - sub\n    - leaf\n", "- .\n", "\u3000\n- .\n  - kid\n"} {
		idx := n + k
		if !c.Mine(idx) {
			continue
		}
		cs := &Case{Idx: idx, Kind: "rootless-or-dot", Seed: uint64(idx)}
		cs.SetDoc(d)
		c.Journal(cs)
		evalC10Rootless(c, cs)
		c.Progress(false)
	}
	return true
}

func evalC10Rootless(c *Ctx, cs *Case) {
	doc := cs.Doc
	for _, tform := range []string{"existing", "missing", "regular-file"} {
		for _, op := range []string{"mkdir", "verify"} {
			var errs [2]error
			var pans [2]any
			var changes [2][]string // what the call changed in its own jail (the jails differ in the target's mode)
			for mi, massive := range []bool{false, true} {
				j, err := mon.NewJail(c.TmpDir, true)
				if err != nil {
					return
				}
				before := j.Snap()
				target := j.Target
				switch tform {
				case "missing":
					target = j.Target + "/not/there/yet"
				case "regular-file":
					target = filepath.Join(filepath.Dir(j.Target), "sentinel-file")
				}
				cs.Entry = op + map[bool]string{true: ",massive", false: ",simple"}[massive]
				cs.Tags = []string{"target-" + tform}
				c.Rejournal(cs)
				res, _ := c10Run(c, op, doc, massive, 0, cs.Seed+uint64(mi)+1, target)
				errs[mi], pans[mi] = res.err, res.pan
				changes[mi] = mon.Diff(before, j.Snap())
				j.Remove()
			}
			c.Eval(gen.HashString(string(doc)+"\x00rootless"+op+tform), true)
			c.Count("rootless_or_dot_root_pairs", 1)
			det := map[string]any{"doc": string(doc), "target": tform, "simple_err": errStr(errs[0]), "massive_err": errStr(errs[1])}
			switch {
			case pans[0] != nil || pans[1] != nil:
				c.Violation(cs, "panic", "rootless", det)
			case (errs[0] == nil) != (errs[1] == nil):
				c.Violation(cs, "error-iff.differs", op+"/"+tform, det)
			case errs[0] == nil && !sameStrings(changes[0], changes[1]):
				det["changed_by_simple"], det["changed_by_massive"] = changes[0], changes[1]
				c.Violation(cs, "result.differs", op+"/"+tform, det)
			}
		}
	}
	cs.Entry, cs.Tags = "", nil
}

var c10Quiet = mon.NewLeakMonitor()

// walkLog records (row) per callback, thread-safe; optional yield.
type walkLog struct {
	mu    sync.Mutex
	rows  []model.Row
	kept  []*gtree.WalkerNode
	yield bool
}

func (w *walkLog) cb(wn *gtree.WalkerNode) error {
	if w.yield {
		runtime.Gosched()
	}
	w.mu.Lock()
	w.rows = append(w.rows, rowOf(wn))
	w.kept = append(w.kept, wn) // the callback may keep what it is given
	w.mu.Unlock()
	return nil
}

// retained re-reads the kept nodes after the walk; "" when each still shows its own visit.
func (w *walkLog) retained() string {
	w.mu.Lock()
	defer w.mu.Unlock()
	for i, wn := range w.kept {
		if i < len(w.rows) && rowOf(wn) != w.rows[i] {
			return fmt.Sprintf("the node given to callback %d showed %q then and shows %q after the walk", i, w.rows[i].Row, wn.Row())
		}
	}
	return ""
}

type c10Result struct {
	conc   int // max concurrent Write calls seen by the caller's writer
	failed int // writes that failed (failing-writer executions)
	out    []byte
	rows   []model.Row
	snap   mon.Snapshot
	err    error
	pan    any
	stk    string
}

// c10Run executes one operation. profile: 0 none, 1 yielding writer/callback, 2 slow chunked
// reader, 3 hook light, 4 hook heavy (hooks only matter in massive mode).
func c10Run(c *Ctx, op string, doc []byte, massive bool, profile int, seed uint64, target string) (res c10Result, sched *mon.Sched) {
	return c10RunW(c, op, doc, massive, profile, seed, target, -1)
}

// c10RunW is c10Run with a writer that fails from write index failAt on (failAt < 0: healthy).
func c10RunW(c *Ctx, op string, doc []byte, massive bool, profile int, seed uint64, target string, failAt int) (res c10Result, sched *mon.Sched) {
	var opts []gtree.Option
	if massive {
		if seed%5 == 0 {
			opts = append(opts, gtree.WithMassive(nil)) // a nil context means "no cancellation"
		} else {
			opts = append(opts, gtree.WithMassive(context.Background()))
		}
	}
	switch op {
	case "branch":
		opts = append(opts, BranchOptions(3)...)
	case "json":
		opts = append(opts, gtree.WithEncodeJSON())
	case "yaml":
		opts = append(opts, gtree.WithEncodeYAML())
	case "dryrun":
		opts = append(opts, gtree.WithDryRun(), gtree.WithFileExtensions([]string{".gz"}))
	case "dryrun.branch": // dry run + custom branch strings + two extensions
		opts = append(opts, gtree.WithDryRun(), gtree.WithFileExtensions([]string{".gz", "b"}))
		opts = append(opts, BranchOptions(6)...)
	case "walk.branch":
		opts = append(opts, BranchOptions(4)...)
	case "mkdir.noext":
		opts = append(opts, gtree.WithTargetDir(target))
	case "mkdir":
		opts = append(opts, gtree.WithTargetDir(target), gtree.WithFileExtensions([]string{".gz"}))
	case "verify":
		opts = append(opts, gtree.WithTargetDir(target))
	case "verify.strict":
		opts = append(opts, gtree.WithTargetDir(target), gtree.WithStrictVerify())
	}
	rd := &mon.FaultReader{Doc: doc, K: -1}
	w := mon.NewRecWriter()
	w.FailAt = failAt
	wl := &walkLog{}
	switch profile {
	case 1:
		w.Yield, wl.yield = true, true
		if seed%2 == 0 && len(doc) < 4000 {
			w.Delay = 20 * time.Microsecond // widens the window in which a second writer would overlap
		}
		if len(doc) > 100000 {
			w.DelayPerKB = 1000 * time.Microsecond // a consumer slower than the pipeline (terminal, pager): about 1 MB/s
		}
	case 2:
		rd.Chunk, rd.Yield = 1+int(seed%17), true
		if seed%3 == 0 {
			rd.Delay = 30 * time.Microsecond
		}
	case 3:
		sched = mon.NewSched(mon.ProfLight, seed)
	case 4:
		sched = mon.NewSched(mon.ProfHeavy, seed)
	}
	if massive && sched == nil {
		sched = mon.NewSched(mon.ProfNone, seed) // trace only
	}
	if sched != nil && massive {
		gtree.VerifSetPointHook(sched.Hook)
		defer gtree.VerifSetPointHook(nil)
	}
	base := runtime.NumGoroutine()
	o := Guard(func() error {
		switch op {
		case "walk", "walk.branch":
			return gtree.WalkFromMarkdown(rd, wl.cb, opts...)
		case "mkdir", "mkdir.noext":
			return gtree.MkdirFromMarkdown(rd, opts...)
		case "verify", "verify.strict":
			return gtree.VerifyFromMarkdown(rd, opts...)
		}
		return gtree.OutputFromMarkdown(w, rd, opts...)
	})
	if massive {
		c10Quiet.Quiesce(base)
	}
	res.out, res.err, res.pan, res.stk = w.Bytes(), o.Err, o.Panic, o.Stack
	_, res.failed, res.conc = w.Stats()
	if res.pan == nil && res.err == nil {
		if sdiff := wl.retained(); sdiff != "" {
			res.pan, res.stk = "walker node changed after its visit: "+sdiff, ""
		}
	}
	wl.mu.Lock()
	res.rows = append([]model.Row(nil), wl.rows...)
	wl.mu.Unlock()
	if op == "mkdir" || op == "mkdir.noext" {
		res.snap, _ = mon.Snap(target)
	}
	return
}

// splitByCounts cuts s into consecutive blocks of the given line counts.
func splitByCounts(s string, counts []int) ([]string, bool) {
	lines := strings.SplitAfter(s, "\n")
	if len(lines) > 0 && lines[len(lines)-1] == "" {
		lines = lines[:len(lines)-1]
	}
	var out []string
	i := 0
	for _, n := range counts {
		if i+n > len(lines) {
			return nil, false
		}
		out = append(out, strings.Join(lines[i:i+n], ""))
		i += n
	}
	return out, i == len(lines)
}

func yamlDocs(s string) []string {
	parts := strings.Split("\n"+s, "\n---\n")
	var out []string
	for _, p := range parts {
		out = append(out, strings.TrimSuffix(strings.TrimPrefix(p, "\n"), "\n"))
	}
	sort.Strings(out)
	return out
}

func evalC10(c *Ctx, cs *Case) {
	doc := cs.Doc
	op := cs.O("op")
	f := gen.FromDepths(cs.Depths, cs.Names)
	merged := model.Merge(f)
	r := gen.New(cs.Seed, 10)
	baseTags := append([]string(nil), cs.Tags...)
	defer func() { cs.Tags, cs.Entry, cs.N = baseTags, "", nil }()
	fsOp := op == "mkdir" || op == "mkdir.noext" || op == "verify" || op == "verify.strict"
	if fsOp {
		// distinct roots required
		seen := map[string]bool{}
		for _, rt := range f {
			if seen[rt.Name] {
				op = "text"
				fsOp = false
			}
			seen[rt.Name] = true
		}
	}
	// ---- reference: simple mode
	mkJail := func(prepare bool) *mon.Jail {
		j, err := mon.NewJail(c.TmpDir, true)
		if err != nil {
			return nil
		}
		if prepare && (op == "verify" || op == "verify.strict") {
			// directory: the tree itself minus (sometimes) one entry plus (sometimes) one extra
			mkdirCall(mkdirRoutes[0], gen.Spell(f, gen.Canonical), nil, fsOpts(j.Target, []string{".gz"}, true, false, false, false))
			st := gen.New(cs.Seed, 11)
			if st.Chance(1, 3) {
				ps := model.Paths(merged)
				removeAll(j.Target + "/" + ps[st.Intn(len(ps))])
				cs.AddTag("dir-missing-entry")
			}
			if st.Chance(1, 3) {
				mkdirAll(j.Target + "/" + merged[st.Intn(len(merged))].Name + "/zz_extra")
				cs.AddTag("dir-extra-entry")
			}
		}
		if prepare && (op == "mkdir" || op == "mkdir.noext") && cs.HasTag("preexisting-root") {
			mkdirAll(j.Target + "/" + merged[len(merged)-1].Name)
		}
		return j
	}
	if (op == "mkdir" || op == "mkdir.noext") && len(merged) >= 2 && r.Chance(1, 6) {
		cs.AddTag("preexisting-root")
		baseTags = append(baseTags, "preexisting-root")
	}
	var jref *mon.Jail
	target := ""
	if fsOp {
		if jref = mkJail(true); jref == nil {
			c.Inconclusive(cs, "jail")
			return
		}
		defer jref.Remove()
		target = jref.Target
	}
	cs.Entry = op + ",simple"
	ref, _ := c10Run(c, op, doc, false, 0, 0, target)
	if ref.pan != nil {
		c.Violation(cs, "panic", PanicSig(ref.pan, ref.stk), map[string]any{"doc": string(doc), "op": op})
		return
	}
	// per-root line counts for block splitting come from the model (well-formed documents)
	var refBlocks []string
	if ref.err == nil && (op == "text" || op == "branch" || op == "dryrun" || op == "dryrun.branch") {
		counts := make([]int, len(merged))
		for i, rt := range merged {
			counts[i] = rt.Size()
			if op == "dryrun" || op == "dryrun.branch" {
				counts[i] += 2
			}
		}
		var ok bool
		if refBlocks, ok = splitByCounts(string(ref.out), counts); !ok {
			// simple mode itself is not what the model expects: other properties' business
			refBlocks = nil
		}
	}
	// ---- a failing writer: massive fails iff simple fails (output operations)
	if !fsOp && op != "walk" && op != "walk.branch" && ref.err == nil {
		for _, k := range []int{0, 1, 3} {
			sref, _ := c10RunW(c, op, doc, false, 0, 0, "", k)
			cs.Entry = op + ",massive"
			cs.N = []int{-1, k}
			cs.Tags = append(append([]string(nil), baseTags...), "failing-writer")
			c.Rejournal(cs)
			mgot, _ := c10RunW(c, op, doc, true, 0, r.Uint64(), "", k)
			c.Eval(gen.HashString(string(doc)+"\x00fw"+op+strconv.Itoa(k)), true)
			c.Count("failing_writer_pairs", 1)
			if mgot.pan != nil {
				c.Violation(cs, "panic", PanicSig(mgot.pan, mgot.stk), map[string]any{"doc": trunc(string(doc), 600), "op": op, "fail_at_write": k})
			} else if sref.failed > 0 && mgot.failed > 0 && (sref.err == nil) != (mgot.err == nil) {
				c.Violation(cs, "error-iff.differs", op+"/failing-writer", map[string]any{"doc": trunc(string(doc), 600), "op": op, "fail_at_write": k, "simple_err": errStr(sref.err), "massive_err": errStr(mgot.err)})
			}
		}
		cs.Tags = append([]string(nil), baseTags...)
	}
	// ---- massive executions
	procs := []int{1, 2, 4, 16}
	profiles := []int{0, 1, 2, 3, 4}
	if c.Quick() {
		procs = []int{procs[r.Intn(4)], procs[r.Intn(4)]}
	}
	if cs.HasTag("many-roots") {
		procs = []int{[]int{1, 4, 16}[r.Intn(3)]}
		if !c.Quick() {
			procs = []int{1, 16}
		}
		profiles = []int{0, 1, 3}
	}
	if cs.HasTag("large-blocks") {
		// big documents: fewer executions, the profiles that matter for torn blocks
		procs = []int{[]int{2, 4, 16}[r.Intn(3)]}
		profiles = []int{0, 1, 3}
	}
	if cs.HasTag("huge-blocks") {
		profiles = []int{1, 1, 1, 0} // the slow consumer three times
	}
	if cs.HasTag("overlong-line") {
		// the question is only "error iff": one processor (where a lost error is most likely) and
		// the machine's own count, three profiles
		procs = []int{1, 16}
		profiles = []int{0, 1, 3}
	}
	oldProcs := runtime.GOMAXPROCS(0)
	defer runtime.GOMAXPROCS(oldProcs)
	for _, p := range procs {
		runtime.GOMAXPROCS(p)
		for _, prof := range profiles {
			var j *mon.Jail
			tgt := ""
			if fsOp {
				if op == "mkdir" || op == "mkdir.noext" {
					if j = mkJail(true); j == nil {
						continue
					}
					tgt = j.Target
				} else {
					tgt = target // verify is read-only: same directory
				}
			}
			cs.Entry = op + ",massive"
			cs.N = []int{p, prof}
			cs.Tags = append([]string(nil), baseTags...)
			c.Rejournal(cs)
			seed := r.Uint64()
			got, sched := c10Run(c, op, doc, true, prof, seed, tgt)
			if j != nil {
				j.Remove()
			}
			sig := uint64(0)
			if sched != nil {
				sig = sched.Signature()
				_, counts, _ := sched.Trace()
				for pt := range counts {
					c.SetAdd("points_reached", pt)
				}
				c.Count("hook_events", int64(sched.Total()))
			}
			c.Eval(gen.HashString(string(doc)+"\x00"+op+strconv.FormatUint(sig, 16)), len(merged) >= 2)
			c.SetAdd("ops", op)
			c.SetAdd("gomaxprocs", strconv.Itoa(p))
			c.SetAdd("profiles", []string{"none", "yield-writer-callback", "slow-chunked-reader", "hook-light", "hook-heavy"}[prof])
			c.Count("massive_executions", 1)
			det := map[string]any{"doc": string(doc), "op": op, "gomaxprocs": p, "profile": prof, "simple_err": errStr(ref.err), "massive_err": errStr(got.err)}
			if sched != nil {
				tr, _, _ := sched.Trace()
				if len(tr) > 60 {
					tr = tr[:60]
				}
				det["hook_trace"] = tr
			}
			if got.conc > 1 {
				det["max_concurrent_writes"] = got.conc
				c.Violation(cs, "writer.called-concurrently", op, det)
			}
			switch {
			case got.pan != nil:
				det["stack"] = got.stk
				c.Violation(cs, "panic", PanicSig(got.pan, got.stk), det)
				continue
			case (got.err == nil) != (ref.err == nil):
				c.Violation(cs, "error-iff.differs", op, det)
				continue
			case ref.err != nil:
				// both reject: nothing else to compare, except that a rejected mkdir must leave the
				// same filesystem behind as the simple mode does
				if op == "mkdir" || op == "mkdir.noext" {
					if d := mon.Diff(ref.snap, got.snap); len(d) != 0 {
						det["why"] = "filesystem after a rejected mkdir differs: " + strings.Join(d, ", ")
						c.Violation(cs, "result.differs", "mkdir-rejected", det)
					}
				}
				continue
			}
			ok, why := true, ""
			switch op {
			case "text", "branch", "dryrun", "dryrun.branch":
				if refBlocks != nil {
					ok, why = coverBlocks(string(got.out), refBlocks), "output is not an exact cover of the simple output's per-root blocks"
				} else {
					ok, why = len(got.out) == len(ref.out), "output length differs"
				}
			case "json":
				a, b := strings.Split(string(got.out), "\n"), strings.Split(string(ref.out), "\n")
				ok, why = sameMultiset(a, b), "JSON lines are not the same multiset"
			case "yaml":
				ok, why = sameStrings(yamlDocs(string(got.out)), yamlDocs(string(ref.out))), "YAML documents are not the same multiset"
			case "walk", "walk.branch":
				ok, why = c10WalkSame(got.rows, ref.rows, cs.HasTag("equal-root-names"))
			case "mkdir", "mkdir.noext":
				d := mon.Diff(ref.snap, got.snap)
				ok, why = len(d) == 0, "filesystem differs: "+strings.Join(d, ", ")
			}
			if !ok {
				det["why"] = why
				det["simple_out"] = trunc(string(ref.out), 1200)
				det["massive_out"] = trunc(string(got.out), 1200)
				c.Violation(cs, "result.differs", op, det)
			}
			if c.WantSample(op) && sched != nil && prof >= 3 {
				tr, _, _ := sched.Trace()
				if len(tr) > 40 {
					tr = tr[:40]
				}
				c.Sample(op, map[string]any{"doc": trunc(string(doc), 300), "gomaxprocs": p, "profile": prof, "hook_trace_head": tr, "simple_err": errStr(ref.err)})
			}
		}
	}
	// ---- mkdir into a target that does not exist yet, under a permissive process umask: the
	// directories made for the target itself must come out as in the simple mode (kinds AND modes)
	if (op == "mkdir" || op == "mkdir.noext") && ref.err == nil && cs.Seed%3 == 0 {
		for _, um := range []int{0o002, 0} {
			old := syscall.Umask(um)
			var snaps [2]mon.Snapshot
			var errs [2]error
			for mi, massive := range []bool{false, true} {
				j, err := mon.NewJail(c.TmpDir, true)
				if err != nil {
					continue
				}
				cs.Entry = op + map[bool]string{true: ",massive", false: ",simple"}[massive]
				cs.Tags = append(append([]string(nil), baseTags...), "missing-target", "umask="+strconv.FormatInt(int64(um), 8))
				c.Rejournal(cs)
				res, _ := c10Run(c, op, doc, massive, 0, r.Uint64(), j.Target+"/not/there/yet")
				errs[mi] = res.err
				snaps[mi], _ = mon.Snap(j.Target)
				j.Remove()
			}
			syscall.Umask(old)
			c.Eval(gen.HashString(string(doc)+"\x00umask"+op+strconv.Itoa(um)), true)
			c.Count("missing_target_under_umask_pairs", 1)
			if errs[0] == nil && errs[1] == nil {
				if d := mon.Diff(snaps[0], snaps[1]); len(d) != 0 {
					c.Violation(cs, "result.differs", op+"/missing-target", map[string]any{"doc": trunc(string(doc), 400), "umask": um, "diff_simple_to_massive": d})
				}
			} else if (errs[0] == nil) != (errs[1] == nil) {
				c.Violation(cs, "error-iff.differs", op+"/missing-target", map[string]any{"doc": trunc(string(doc), 400), "simple_err": errStr(errs[0]), "massive_err": errStr(errs[1])})
			}
		}
		cs.Tags = append([]string(nil), baseTags...)
	}
}

// c10WalkSame: same rows as a multiset and, per root, the same sequence.
func c10WalkSame(got, ref []model.Row, equalRoots bool) (bool, string) {
	key := func(r model.Row) string { return r.Path + "\x00" + r.Row + "\x00" + strconv.Itoa(r.Level) }
	var a, b []string
	for _, r := range got {
		a = append(a, key(r))
	}
	for _, r := range ref {
		b = append(b, key(r))
	}
	if !sameMultiset(a, b) {
		return false, "walk rows are not the same multiset"
	}
	if equalRoots {
		return true, ""
	}
	rootOf := func(r model.Row) string {
		if i := strings.IndexByte(r.Path, '/'); i >= 0 {
			return r.Path[:i]
		}
		return r.Path
	}
	per := func(rows []model.Row) map[string][]string {
		m := map[string][]string{}
		for _, r := range rows {
			m[rootOf(r)] = append(m[rootOf(r)], key(r))
		}
		return m
	}
	pa, pb := per(got), per(ref)
	for k, v := range pb {
		if !sameStrings(pa[k], v) {
			return false, "order inside root " + strconv.Quote(k) + " differs"
		}
	}
	return true, ""
}

func removeAll(p string) { os.RemoveAll(p) }
func mkdirAll(p string)  { os.MkdirAll(p, 0o755) }
