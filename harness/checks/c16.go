package checks

import (
	"sort"
	"time"
	"context"
	"bytes"
	"io"
	"os"
	"os/exec"
	"path/filepath"
	"strconv"
	"strings"
	"syscall"

	"github.com/ddddddO/gtree"

	"gtverif/gen"
	"gtverif/model"
	"gtverif/mon"
)

// C16 — the CLI is a faithful front end with a truthful exit status. The real binary (built
// from /repo/cmd/gtree) is run as a process; the expected stdout, filesystem effect and
// success come from calling the library in this worker with the options the flags stand for.
// I/O faults are injected at syscall level with strace (ENOSPC on the N-th write to stdout,
// EACCES on the N-th mkdirat / file creation); a run is a fault case iff the strace log
// contains "(INJECTED)".

func init() {
	Register(&Check{Prop: "C16", Run: runC16, Replay: func(c *Ctx, cs *Case) { evalC16(c, cs) }})
}

type cliRes struct {
	stdout, stderr []byte
	exit           int
	runErr         error
}

// runCLI runs the gtree binary. stdoutMode: "" pipe, "closed", "devfull".
// c16Stdin gives the child its standard input as one of four kinds of descriptor, in rotation:
// a pipe, a regular file at offset 0, a regular file of which an earlier reader has consumed a
// header line (the document starts at the descriptor's CURRENT offset), a socket. What the CLI
// reads from descriptor 0 is the same document every time, so its behaviour must be the same
// (commands that name /dev/stdin as a FILE are left on the pipe: re-opening is their business).
var c16StdinSeq int

func c16Stdin(c *Ctx, cmd *exec.Cmd, stdin []byte, args []string) (cleanup func()) {
	cleanup = func() {}
	cmd.Stdin = bytes.NewReader(stdin)
	for _, a := range args {
		if strings.Contains(a, "/dev/stdin") || strings.Contains(a, "/dev/fd/") || strings.Contains(a, "/proc/self/fd") {
			return
		}
	}
	c16StdinSeq++
	if len(stdin) == 0 && c16StdinSeq%2 == 0 {
		// nothing to read: descriptor 0 on the null device (a character device, like a terminal),
		// the way cron, systemd and "</dev/null" start a process
		c.Count("cli_stdin.null-device", 1)
		cmd.Stdin = nil
		return
	}
	kind := c16StdinSeq % 4
	c.Count("cli_stdin."+[]string{"pipe", "regular-file", "regular-file-at-an-offset", "socket"}[kind], 1)
	switch kind {
	case 1, 2:
		f, err := os.CreateTemp(c.TmpDir, "stdin")
		if err != nil {
			return
		}
		os.Remove(f.Name())
		header := ""
		if kind == 2 {
			header = "# a header line that an earlier reader of this descriptor has consumed\n- and-a-root\n"
		}
		f.WriteString(header)
		f.Write(stdin)
		f.Seek(int64(len(header)), io.SeekStart)
		cmd.Stdin = f
		cleanup = func() { f.Close() }
	case 3:
		fds, err := syscall.Socketpair(syscall.AF_UNIX, syscall.SOCK_STREAM|syscall.SOCK_CLOEXEC, 0)
		if err != nil {
			return
		}
		child, parent := os.NewFile(uintptr(fds[0]), "stdin-socket"), os.NewFile(uintptr(fds[1]), "stdin-socket-peer")
		cmd.Stdin = child
		done := make(chan struct{})
		go func() {
			defer close(done)
			parent.Write(stdin)
			parent.Close()
		}()
		cleanup = func() { child.Close(); parent.Close(); <-done }
	}
	return
}

func runCLI(c *Ctx, cwd string, stdin []byte, stdoutMode string, args ...string) cliRes {
	cmd := exec.Command(filepath.Join(c.BinDir, "gtree"), args...)
	cmd.Dir = cwd
	cleanupStdin := c16Stdin(c, cmd, stdin, args)
	defer func() { cleanupStdin() }()
	var so, se bytes.Buffer
	cmd.Stderr = &se
	var devfull *os.File
	switch stdoutMode {
	case "closed":
		cmd.Stdout = nil // /dev/null would succeed; a closed fd is produced below via sh
		// exec cannot start a process with fd 1 closed directly; go through sh
		shArgs := append([]string{"-c", `exec "$0" "$@" >&-`, filepath.Join(c.BinDir, "gtree")}, args...)
		cmd = exec.Command("/bin/sh", shArgs...)
		cmd.Dir = cwd
		cleanupStdin()
		cleanupStdin = c16Stdin(c, cmd, stdin, args)
		cmd.Stderr = &se
	case "devfull":
		devfull, _ = os.OpenFile("/dev/full", os.O_WRONLY, 0)
		cmd.Stdout = devfull
	case "rdonly-file":
		// a REGULAR file that refuses writes (descriptor opened read-only): every write fails with
		// EBADF, as on a disk that is full or over quota, but the file is not a character device
		if f, err := os.CreateTemp(cwd, "ro-stdout"); err == nil {
			name := f.Name()
			f.Close()
			devfull, _ = os.Open(name)
			os.Remove(name)
			cmd.Stdout = devfull
		}
	default:
		cmd.Stdout = &so
	}
	cmd.Env = append(os.Environ(), "NO_COLOR=1")
	err := cmd.Run()
	if devfull != nil {
		devfull.Close()
	}
	res := cliRes{stdout: so.Bytes(), stderr: se.Bytes()}
	if ee, ok := err.(*exec.ExitError); ok {
		res.exit = ee.ExitCode()
		if ws, ok := ee.Sys().(syscall.WaitStatus); ok && ws.Signaled() {
			res.exit = 128 + int(ws.Signal())
		}
	} else if err != nil {
		res.runErr = err
		res.exit = -1
	}
	return res
}

func crashed(r cliRes) bool {
	return bytes.Contains(r.stderr, []byte("panic:")) || bytes.Contains(r.stderr, []byte("goroutine ")) || bytes.Contains(r.stderr, []byte("fatal error:"))
}

var c16Sample = model.Forest{{Name: "gtree", Kids: []*model.Node{
	{Name: "cmd", Kids: []*model.Node{{Name: "gtree", Kids: []*model.Node{{Name: "main.go"}}}}},
	{Name: "testdata", Kids: []*model.Node{{Name: "sample1.md"}, {Name: "sample2.md"}}},
	{Name: "Makefile"}, {Name: "tree.go"},
}}}

func runC16(c *Ctx) bool {
	idx := 0
	emit := func(cs *Case) {
		cs.Idx = idx
		idx++
		if !c.Mine(cs.Idx) {
			return
		}
		c.Journal(cs)
		evalC16(c, cs)
		c.Progress(false)
	}
	emit(&Case{Kind: "template"})
	emit(&Case{Kind: "usage"})
	for _, format := range []string{"", "json"} {
		emit(&Case{Kind: "watch", Opt: map[string]string{"format": format}})
	}
	nDocs := c.Pick(150, 3000)
	for j := 0; j < nDocs; j++ {
		r := gen.New(c.Seed, 1601, uint64(j))
		var f model.Forest
		nRoots := []int{1, 1, 2, 3, 6}[r.Intn(5)]
		for len(f) < nRoots {
			f = append(f, gen.RandForest(r, r.Range(1, 7), 4, []int{gen.ClassPlain, gen.ClassExt, gen.ClassUnicode, gen.ClassBullet}, 10)[0])
		}
		kind := "wellformed"
		switch {
		case j%10 == 7:
			kind = "hostile-names"
			depths, names := gen.Depths(f)
			names[r.Intn(len(names))] = []string{"..", "a/b", ".", "../x", "/abs"}[r.Intn(5)]
			f = gen.FromDepths(depths, names)
			gen.DistinctRoots(f)
		default:
			c08Safe(f)
		}
		sp := gen.RandSpelling(r)
		if sp.Heading > 0 && !gen.CanHeading(f) {
			sp.Heading = 0
		}
		doc := gen.Spell(f, sp)
		if j%10 == 3 || j%10 == 8 {
			sp.Heading = 0
			lines := gen.SpellLines(f, sp)
			for try := 0; try < 20; try++ {
				class := gen.AllClasses[r.Intn(len(gen.AllClasses))]
				if inj, _, ok := gen.Inject(lines, sp, class, r.Intn(len(lines)), r.Intn(2)); ok {
					doc = gen.Join(inj, sp.CRLF, sp.FinalNL)
					kind = "malformed"
					break
				}
			}
		}
		if j%25 == 24 {
			doc, kind = []string{"", "\n\n", "  \n"}[r.Intn(3)], "blank"
			f = nil
		}
		cs := &Case{Kind: kind, Seed: r.Uint64()}
		if f != nil {
			cs.Depths, cs.Names = gen.Depths(f)
		}
		cs.SetDoc(doc)
		emit(cs)
	}
	// syscall-level fault injection
	nFault := c.Pick(10, 120)
	for j := 0; j < nFault; j++ {
		r := gen.New(c.Seed, 1602, uint64(j))
		var f model.Forest
		for len(f) < r.Range(1, 4) {
			f = append(f, gen.RandForest(r, r.Range(1, 5), 3, []int{gen.ClassPlain, gen.ClassExt}, 0)[0])
		}
		c08Safe(f)
		cs := &Case{Kind: "strace-faults", Seed: r.Uint64()}
		cs.Depths, cs.Names = gen.Depths(f)
		cs.SetDoc(gen.Spell(f, gen.Canonical))
		emit(cs)
	}
	return true
}

func evalC16(c *Ctx, cs *Case) {
	defer func() { cs.Entry, cs.Tags, cs.Opt = "", nil, nil }()
	switch cs.Kind {
	case "template":
		c16Template(c, cs)
		return
	case "watch":
		c16Watch(c, cs)
		return
	case "usage":
		c16Usage(c, cs)
		return
	case "strace-faults":
		c16Strace(c, cs)
		return
	}
	doc := cs.Doc
	var f, merged model.Forest
	if cs.Depths != nil {
		f = gen.FromDepths(cs.Depths, cs.Names)
		merged = model.Merge(f)
	}
	r := gen.New(cs.Seed, 16)
	j, err := mon.NewJail(c.TmpDir, true)
	if err != nil {
		c.Inconclusive(cs, "jail")
		return
	}
	defer j.Remove()
	docFile := filepath.Join(j.Root, "doc.md")
	os.WriteFile(docFile, doc, 0o644)
	key := func(s string) uint64 { return gen.HashString(string(doc) + "\x00" + s) }
	judge := func(label string, res cliRes, wantOK bool, wantOut []byte, compareOut bool, blocks []string, det map[string]any) {
		cs.Entry = label
		c.Eval(key(label), len(doc) > 0)
		c.SetAdd("commands", strings.Fields(label)[0])
		c.Count("process_runs", 1)
		det["doc"] = trunc(string(doc), 800)
		det["args"] = label
		det["exit"] = res.exit
		det["stderr"] = trunc(string(res.stderr), 400)
		det["stdout"] = trunc(string(res.stdout), 800)
		switch {
		case res.runErr != nil:
			c.Inconclusive(cs, "cannot run the CLI: "+res.runErr.Error())
		case crashed(res):
			c.Violation(cs, "cli.crash", "", det)
		case wantOK && res.exit != 0:
			c.Violation(cs, "cli.nonzero-on-success", "", det)
		case !wantOK && res.exit == 0:
			c.Violation(cs, "cli.exit0-on-failure", "", det)
		case !wantOK && len(bytes.TrimSpace(res.stderr)) == 0:
			c.Violation(cs, "cli.no-diagnostic", "", det)
		case !wantOK && compareOut && blocks == nil && wantOut != nil && !bytes.Equal(res.stdout, wantOut):
			// also on failure stdout is exactly what the library wrote before it failed
			det["want"] = trunc(string(wantOut), 800)
			c.Violation(cs, "cli.stdout-differs-from-library", "on-failure", det)
		case wantOK && compareOut:
			ok := bytes.Equal(res.stdout, wantOut)
			if blocks != nil {
				ok = coverBlocks(string(res.stdout), blocks)
			}
			if !ok {
				det["want"] = trunc(string(wantOut), 800)
				c.Violation(cs, "cli.stdout-differs-from-library", "", det)
			}
		}
	}
	// ---------------- output
	for _, format := range []string{"", "json", "yaml", "toml"} {
		for _, massive := range []bool{false, true} {
			if massive && r.Chance(1, 2) {
				continue
			}
			for via := 0; via < 4; via++ {
				// the document comes from stdin, from a regular file, or from --file naming
				// something that is neither a regular file nor a directory (/dev/stdin fed by a pipe)
				viaFile := via == 1
				if format != "" && via != r.Intn(4) {
					continue
				}
				var opts []gtree.Option
				args := []string{"output"}
				switch format {
				case "json":
					opts = append(opts, gtree.WithEncodeJSON())
				case "yaml":
					opts = append(opts, gtree.WithEncodeYAML())
				case "toml":
					opts = append(opts, gtree.WithEncodeTOML())
				}
				if format != "" {
					args = append(args, "--format", format)
				}
				if massive {
					args = append(args, "--massive")
				}
				var stdin []byte
				if viaFile {
					args = append(args, "--file", docFile)
				} else if via == 2 {
					args = append(args, "--file", "/dev/stdin")
					stdin = doc
					c.Count("file_flag_names_a_pipe", 1)
				} else if via == 3 {
					// "-" and the empty string both mean standard input
					args = append(args, [][]string{{"--file", "-"}, {"-f", "-"}, {"--file="}}[r.Intn(3)]...)
					stdin = doc
					c.Count("file_flag_means_stdin", 1)
				} else {
					stdin = doc
				}
				lib := OutputMD(string(doc), opts...) // simple-mode library result is the reference
				var blocks []string
				compare := true
				if massive {
					compare = false
					if lib.Err == nil && merged != nil && format == "" {
						blocks = model.RenderBlocks(merged, model.DefaultBranch)
						compare = true
					}
				}
				res := runCLI(c, j.Target, stdin, "", args...)
				libOut := lib.Out
				if libOut == nil {
					libOut = []byte{}
				}
				judge(strings.Join(args, " "), res, lib.Err == nil && lib.Panic == nil, libOut, compare, blocks, map[string]any{"lib_err": errStr(lib.Err)})
			}
		}
	}
	// --file spelled through a symbolic link and "..": the kernel follows the link first, so
	// <dir>/via/../doc.md is <dir>/sub/doc.md (the judged document), not the cleaned path
	// <dir>/doc.md (another document); and "doc.md/" names nothing (ENOTDIR): an error
	{
		os.MkdirAll(filepath.Join(j.Root, "spelling", "sub", "real"), 0o755)
		os.Symlink("sub/real", filepath.Join(j.Root, "spelling", "via"))
		os.WriteFile(filepath.Join(j.Root, "spelling", "sub", "doc.md"), doc, 0o644)
		os.WriteFile(filepath.Join(j.Root, "spelling", "doc.md"), []byte("- decoy-at-the-cleaned-path\n  - x\n"), 0o644)
		lib := OutputMD(string(doc))
		libOut := lib.Out
		if libOut == nil {
			libOut = []byte{}
		}
		for _, sub := range []string{"output", "mkdir", "verify"} {
			if sub != "output" && int(cs.Seed%3) != 0 {
				continue
			}
			args := []string{sub, "--file", filepath.Join(j.Root, "spelling") + "/via/../doc.md"}
			if sub == "output" {
				res := runCLI(c, j.Target, nil, "", args...)
				judge(sub+" --file <link>/../doc.md", res, lib.Err == nil && lib.Panic == nil, libOut, true, nil, map[string]any{"lib_err": errStr(lib.Err)})
			}
			res := runCLI(c, j.Target, nil, "", sub, "--file", docFile+"/")
			judge(sub+" --file doc.md/", res, false, nil, false, nil, map[string]any{"note": "a regular file followed by a slash is not a file name the kernel accepts"})
		}
	}
	// --massive together with --massive-timeout: the timeout must stay in force whatever the order
	// of the two flags (an expired deadline fails the call in the library, so it must in the CLI)
	if len(bytes.TrimSpace(doc)) > 0 {
		ctx, cancel := context.WithTimeout(context.Background(), time.Nanosecond)
		lib := OutputMD(string(doc), gtree.WithMassive(ctx))
		cancel()
		for _, args := range [][]string{{"output", "--massive", "--massive-timeout", "1ns"}, {"output", "--mt", "1ns", "-m"}} {
			res := runCLI(c, j.Target, doc, "", args...)
			c.Count("massive_with_expired_timeout_runs", 1)
			judge(strings.Join(args, " "), res, lib.Err == nil && lib.Panic == nil, nil, false, nil, map[string]any{"lib_err": errStr(lib.Err)})
		}
	}
	// failing stdout
	if len(bytes.TrimSpace(doc)) > 0 {
		lib := OutputMD(string(doc))
		if lib.Err == nil && len(lib.Out) > 0 {
			for _, mode := range []string{"devfull", "closed", "rdonly-file"} {
				for fi, format := range []string{"", "json", "", "yaml"} {
					args := []string{"output"}
					if format != "" {
						args = append(args, "--format", format)
					}
					if fi >= 2 {
						args = append(args, "--massive") // the massive route has its own way to stdout
					}
					res := runCLI(c, j.Target, doc, mode, args...)
					// /dev/full: every write fails, so the command must fail. A CLOSED stdout cannot
					// fail in a Go program: the runtime re-opens closed standard descriptors on
					// /dev/null at start-up, every byte is accepted, so the command must succeed.
					judge(strings.Join(args, " ")+" >"+mode, res, mode == "closed", nil, false, nil, map[string]any{"stdout_state": mode})
					c.Count("stdout_fault_runs", 1)
				}
			}
		}
	}
	// ---------------- mkdir (+ dry-run) and verify (also for documents without any root: the
	// library makes nothing, verifies nothing and succeeds, and so must the CLI)
	ei := r.Intn(len(ExtLists))
	exts := ExtLists[ei]
	var extArgs []string
	for _, e := range exts {
		extArgs = append(extArgs, "-e", e)
	}
	for _, dry := range []bool{true, false} {
		for _, withTarget := range []bool{false, true} {
			if withTarget != (r.Intn(2) == 0) && dry {
				continue
			}
			jc, err1 := mon.NewJail(c.TmpDir, true)
			jl, err2 := mon.NewJail(c.TmpDir, true)
			if err1 != nil || err2 != nil {
				continue
			}
			preexist := !dry && merged != nil && r.Chance(1, 6) && fsSafeName(merged[0].Name)
			if preexist {
				mkdirAll(jc.Target + "/" + merged[0].Name)
				mkdirAll(jl.Target + "/" + merged[0].Name)
			}
			args := []string{"mkdir"}
			if dry {
				args = append(args, "--dry-run")
			}
			args = append(args, extArgs...)
			cwd := jc.Target
			tdir := jc.Target
			if withTarget && r.Intn(3) == 0 {
				// the target is named through a symbolic link to it (no trailing slash)
				tdir = filepath.Join(jc.Root, "target-link")
				os.Symlink(jc.Rel, tdir)
				c.Count("target_dir_through_a_link", 1)
			}
			if withTarget {
				args = append(args, "--target-dir", tdir)
				cwd = jc.Root
			}
			// the document comes from stdin or, for half of the runs, from --file
			mstdin := doc
			viaFile := r.Intn(2) == 0
			viaPipeFile := !viaFile && r.Intn(3) == 0
			viaDash := !viaFile && !viaPipeFile && r.Intn(2) == 0
			if viaFile {
				args = append(args, "--file", docFile)
				mstdin = nil
			} else if viaPipeFile {
				args = append(args, "--file", "/dev/stdin")
				c.Count("file_flag_names_a_pipe", 1)
			} else if viaDash {
				args = append(args, "--file", "-")
				c.Count("file_flag_means_stdin", 1)
			}
			before := jc.Snap()
			res := runCLI(c, cwd, mstdin, "", args...)
			after := jc.Snap()
			if viaFile || viaPipeFile || viaDash {
				args = args[:len(args)-2]
			}
			// library: the CLI's dry-run is Output + WithDryRun on color.Output; the real run is MkdirFromMarkdown
			var lib Outcome
			var libSnapDiff []string
			if dry {
				lib = OutputMD(string(doc), fsOpts(jl.Target, exts, true, true, false, false)...)
			} else {
				lb := jl.Snap()
				lib = mkdirCall(mkdirRoutes[0], string(doc), nil, fsOpts(jl.Target, exts, true, false, false, false))
				libSnapDiff = mon.Diff(lb, jl.Snap())
			}
			det := map[string]any{"lib_err": errStr(lib.Err), "ext": exts, "preexisting_root": preexist}
			label := strings.Join(args[:len(args)-map[bool]int{true: 1, false: 0}[withTarget]], " ")
			judge(label, res, lib.Err == nil && lib.Panic == nil, lib.Out, dry, nil, det)
			cliDiff := mon.Diff(before, after)
			cs.Entry = label
			if dry && len(cliDiff) != 0 {
				det["diff"] = cliDiff
				c.Violation(cs, "cli.dry-run-changed-filesystem", "", det)
			}
			if !dry && !crashed(res) {
				if !sameStrings(cliDiff, libSnapDiff) {
					det["cli_diff"], det["lib_diff"] = cliDiff, libSnapDiff
					c.Violation(cs, "cli.mkdir-effect-differs-from-library", "", det)
				}
			}
			// ---------------- verify against what the CLI just made
			if !dry {
				for _, strict := range []bool{false, true} {
					vargs := []string{"verify"}
					if strict {
						vargs = append(vargs, []string{"--strict", "--strict=true"}[r.Intn(2)])
					} else if r.Intn(2) == 0 {
						vargs = append(vargs, []string{"--strict=false", "--strict=0"}[r.Intn(2)]) // given, and off
						c.Count("boolean_flag_given_as_false", 1)
					}
					vcwd := jc.Target
					if withTarget {
						vargs = append(vargs, "--target-dir", tdir)
						vcwd = jc.Root
					}
					if r.Chance(1, 3) {
						// a difference: an extra entry / a missing entry
						if merged != nil && fsSafeName(merged[0].Name) {
							mkdirAll(jc.Target + "/" + merged[0].Name + "/zz_extra")
						}
					}
					vlib := verifyCall(verifyRoutes[0], string(doc), nil, fsOpts(jc.Target, nil, false, false, false, strict))
					vstdin := doc
					switch r.Intn(4) {
					case 0:
						vargs = append([]string{vargs[0], "-f", docFile}, vargs[1:]...)
						vstdin = nil
					case 3:
						vargs = append([]string{vargs[0], "-f", "-"}, vargs[1:]...)
						c.Count("file_flag_means_stdin", 1)
					case 1:
						vargs = append([]string{vargs[0], "-f", "/dev/stdin"}, vargs[1:]...)
						c.Count("file_flag_names_a_pipe", 1)
					}
					vres := runCLI(c, vcwd, vstdin, "", vargs...)
					vlabel := strings.Join(vargs[:len(vargs)-map[bool]int{true: 1, false: 0}[withTarget]], " ")
					judge(vlabel, vres, vlib.Err == nil && vlib.Panic == nil, nil, false, nil, map[string]any{"lib_err": errStr(vlib.Err)})
				}
				if withTarget {
					// the file system root as target ("/" and "//"), from inside the directory that holds the
					// tree: the library looks in "/", so must the CLI (read-only: verify)
					for _, slash := range []string{"/", "//"} {
						rlib := verifyCall(verifyRoutes[0], string(doc), nil, fsOpts(slash, nil, false, false, false, false))
						rres := runCLI(c, jc.Target, doc, "", "verify", "--target-dir", slash)
						c.Count("verify_against_the_filesystem_root", 1)
						judge("verify --target-dir "+slash, rres, rlib.Err == nil && rlib.Panic == nil, nil, false, nil, map[string]any{"lib_err": errStr(rlib.Err)})
					}
					// a target directory that does not exist: whatever the library says about it
					// (nothing to verify for a document without roots, everything missing otherwise)
					missing := filepath.Join(jc.Root, "no-such-target")
					for _, strict := range []bool{false, true} {
						margs := []string{"verify"}
						if strict {
							margs = append(margs, "--strict")
						}
						mlib := verifyCall(verifyRoutes[0], string(doc), nil, fsOpts(missing, nil, false, false, false, strict))
						mres := runCLI(c, jc.Root, doc, "", append(margs, "--target-dir", missing)...)
						c.Count("verify_against_a_missing_target", 1)
						judge(strings.Join(margs, " ")+" --target-dir <missing>", mres, mlib.Err == nil && mlib.Panic == nil, nil, false, nil, map[string]any{"lib_err": errStr(mlib.Err)})
					}
				}
			}
			jc.Remove()
			jl.Remove()
		}
	}
	if merged != nil && cs.Kind == "wellformed" && cs.Seed%3 == 0 {
		c16Chroot(c, cs, doc, merged, exts, extArgs)
	}
	if c.WantSample(cs.Kind) {
		res := runCLI(c, j.Target, doc, "", "output")
		c.Sample(cs.Kind, map[string]any{"doc": trunc(string(doc), 300), "cmd": "gtree output", "exit": res.exit, "stdout": trunc(string(res.stdout), 300), "stderr": trunc(string(res.stderr), 200)})
	}
}

func c16Template(c *Ctx, cs *Case) {
	j, err := mon.NewJail(c.TmpDir, true)
	if err != nil {
		return
	}
	defer j.Remove()
	cs.Entry = "template | output"
	t := runCLI(c, j.Target, nil, "", "template")
	o := runCLI(c, j.Target, t.stdout, "", "output")
	c.Eval(gen.HashString("template"), true)
	c.Count("process_runs", 2)
	want := model.Render(c16Sample, model.DefaultBranch)
	det := map[string]any{"template": string(t.stdout), "output": string(o.stdout), "want": want, "exit": []int{t.exit, o.exit}}
	if t.exit != 0 || o.exit != 0 || string(o.stdout) != want {
		c.Violation(cs, "cli.template-sample-differs", "", det)
	}
	// the block documented in the README under "$ gtree template | gtree output"
	readme, err := os.ReadFile(filepath.Join(envOr("VERIF_REPO", "/repo"), "README.md"))
	if err == nil {
		lines := strings.Split(string(readme), "\n")
		var blk []string
		for i, l := range lines {
			if strings.TrimSpace(l) == "$ gtree template | gtree output" {
				for _, m := range lines[i+1:] {
					if strings.HasPrefix(m, "```") || strings.HasPrefix(m, "$ ") {
						break
					}
					blk = append(blk, m)
				}
				break
			}
		}
		c.Eval(gen.HashString("template-readme"), true)
		if len(blk) > 0 && strings.Join(blk, "\n")+"\n" != string(o.stdout) {
			det["readme_block"] = strings.Join(blk, "\n")
			c.Violation(cs, "cli.template-differs-from-readme", "", det)
		}
	}
	// template on a failing stdout
	tf := runCLI(c, j.Target, nil, "devfull", "template")
	c.Eval(gen.HashString("template-devfull"), true)
	if tf.exit == 0 {
		c.Violation(cs, "cli.exit0-on-failure", "", map[string]any{"args": "template >/dev/full", "stderr": string(tf.stderr)})
	}
	c.Sample("template", map[string]any{"cmd": "gtree template | gtree output", "stdout": string(o.stdout)})
}

func envOr(k, d string) string {
	if v := os.Getenv(k); v != "" {
		return v
	}
	return d
}

func c16Usage(c *Ctx, cs *Case) {
	j, err := mon.NewJail(c.TmpDir, true)
	if err != nil {
		return
	}
	defer j.Remove()
	doc := []byte("- a\n  - b\n")
	cases := [][]string{
		{"output", "stray"},
		{"output", "--nope"},
		{"output", "--format", "xml"},
		{"output", "--massive-timeout", "0s"},
		{"output", "--massive-timeout", "-1s"},
		{"output", "--file", filepath.Join(j.Root, "does-not-exist.md")},
		{"mkdir", "stray"},
		{"mkdir", "--nope"},
		{"mkdir", "--file", filepath.Join(j.Root, "does-not-exist.md")},
		{"verify", "stray"},
		{"verify", "--nope"},
		{"verify", "--file", filepath.Join(j.Root, "does-not-exist.md")},
		{"template", "stray"},
		{"nosuchcommand"},
		{"output", "--file", j.Root}, // a directory: read error
		{"output", ""},               // a stray argument of length zero is still a stray argument
		{"output", "", "stray"},
		{"mkdir", "--dry-run", ""},
		{"verify", ""},
		{"output", "--", ""},
		// stray words that mean something to the command-line framework (implicit sub-commands)
		{"output", "help"},
		{"mkdir", "h"},
		{"verify", "--strict", "h"},
		{"template", "help"},
		{"output", "--", "help"},
		{"output", "version"},
		{"output", "-"},
		{"mkdir", "--dry-run", "help"},
	}
	for _, args := range cases {
		res := runCLI(c, j.Target, doc, "", args...)
		cs.Entry = strings.Join(args[:min(len(args), 2)], " ")
		c.Eval(gen.HashString("usage"+strings.Join(args, " ")), true)
		c.Count("process_runs", 1)
		c.Count("usage_error_runs", 1)
		det := map[string]any{"args": strings.Join(args, " "), "exit": res.exit, "stderr": trunc(string(res.stderr), 300), "stdout": trunc(string(res.stdout), 200)}
		switch {
		case crashed(res):
			c.Violation(cs, "cli.crash", "", det)
		case res.exit == 0:
			c.Violation(cs, "cli.exit0-on-failure", "usage", det)
		case len(bytes.TrimSpace(res.stderr)) == 0:
			c.Violation(cs, "cli.no-diagnostic", "usage", det)
		}
	}
	// successes with flags in unusual but valid forms
	for _, args := range [][]string{{"output", "-f", "-"}, {"o"}, {"out", "--format", "json"}, {"output", "--massive-timeout", "10s"}, {"version"}, {"template", "--description"}} {
		res := runCLI(c, j.Target, doc, "", args...)
		cs.Entry = strings.Join(args, " ")
		c.Eval(gen.HashString("ok"+strings.Join(args, " ")), true)
		c.Count("process_runs", 1)
		if res.exit != 0 || crashed(res) {
			c.Violation(cs, "cli.nonzero-on-success", "", map[string]any{"args": strings.Join(args, " "), "exit": res.exit, "stderr": trunc(string(res.stderr), 300)})
		}
	}
	c.Sample("usage", map[string]any{"cmd": "gtree output stray", "exit": runCLI(c, j.Target, doc, "", "output", "stray").exit})
}

// c16Strace injects syscall faults into the CLI with strace.
func c16Strace(c *Ctx, cs *Case) {
	if _, err := exec.LookPath("strace"); err != nil {
		c.Inconclusive(cs, "strace not available")
		return
	}
	doc := cs.Doc
	f := gen.FromDepths(cs.Depths, cs.Names)
	merged := model.Merge(f)
	bin := filepath.Join(c.BinDir, "gtree")
	run := func(cwd string, stdoutPath string, straceArgs []string, args ...string) (exit int, stderr []byte, injected bool, log string) {
		logPath := filepath.Join(c.TmpDir, "strace.log")
		os.Remove(logPath)
		full := append([]string{"-f", "-o", logPath}, straceArgs...)
		full = append(full, bin)
		full = append(full, args...)
		cmd := exec.Command("strace", full...)
		cmd.Dir = cwd
		cmd.Stdin = bytes.NewReader(doc)
		var se bytes.Buffer
		cmd.Stderr = &se
		if stdoutPath != "" {
			of, _ := os.Create(stdoutPath)
			defer of.Close()
			cmd.Stdout = of
		}
		cmd.Env = append(os.Environ(), "NO_COLOR=1")
		err := cmd.Run()
		if ee, ok := err.(*exec.ExitError); ok {
			exit = ee.ExitCode()
		} else if err != nil {
			exit = -1
		}
		lb, _ := os.ReadFile(logPath)
		return exit, se.Bytes(), bytes.Contains(lb, []byte("(INJECTED)")), string(lb)
	}
	judge := func(label string, n int, exit int, stderr []byte, injected bool) bool {
		cs.Entry = label
		cs.N = []int{n}
		c.Eval(gen.HashString(string(doc)+label+strconv.Itoa(n)), true)
		c.Count("strace_runs", 1)
		det := map[string]any{"doc": trunc(string(doc), 400), "cmd": label, "when": n, "exit": exit, "stderr": trunc(string(stderr), 300), "injected": injected}
		if exit == -1 {
			c.Inconclusive(cs, "strace could not run")
			return false
		}
		if bytes.Contains(stderr, []byte("panic:")) || bytes.Contains(stderr, []byte("fatal error:")) {
			c.Violation(cs, "cli.crash", "", det)
		}
		if injected {
			c.Count("strace_faults_injected", 1)
			if exit == 0 {
				c.Violation(cs, "cli.exit0-on-failure", "injected-fault", det)
			} else if len(bytes.TrimSpace(stderr)) == 0 {
				c.Violation(cs, "cli.no-diagnostic", "injected-fault", det)
			}
		} else if exit != 0 {
			c.Violation(cs, "cli.nonzero-on-success", "no-fault-injected", det)
		}
		return injected
	}
	// (1) ENOSPC on the N-th write to stdout, for every N until no injection happens
	for _, format := range []string{"", "json", "yaml"} {
		for n := 1; n <= 40; n++ {
			j, err := mon.NewJail(c.TmpDir, true)
			if err != nil {
				return
			}
			outPath := filepath.Join(j.Root, "stdout.txt")
			args := []string{"output"}
			if format != "" {
				args = append(args, "--format", format)
			}
			exit, se, inj, _ := run(j.Target, outPath, []string{"-P", outPath, "-e", "trace=write", "-e", "inject=write:error=ENOSPC:when=" + strconv.Itoa(n)}, args...)
			injected := judge("strace[write ENOSPC] "+strings.Join(args, " "), n, exit, se, inj)
			j.Remove()
			if !injected {
				break
			}
		}
	}
	// (2) EACCES on the N-th mkdirat
	exts := []string{".gz"}
	for n := 1; n <= 60; n++ {
		j, err := mon.NewJail(c.TmpDir, true)
		if err != nil {
			return
		}
		exit, se, inj, _ := run(j.Target, filepath.Join(j.Root, "stdout.txt"), []string{"-e", "trace=mkdirat,mkdir", "-e", "inject=mkdirat,mkdir:error=EACCES:when=" + strconv.Itoa(n)}, "mkdir", "-e", ".gz")
		injected := judge("strace[mkdirat EACCES] mkdir -e .gz", n, exit, se, inj)
		j.Remove()
		if !injected {
			break
		}
	}
	// (3) EACCES on the creation of each expected regular file
	for _, e := range model.FSEntries(merged, exts) {
		if !e.File {
			continue
		}
		j, err := mon.NewJail(c.TmpDir, true)
		if err != nil {
			return
		}
		p := filepath.Join(j.Target, e.Path)
		exit, se, inj, _ := run(j.Target, filepath.Join(j.Root, "stdout.txt"), []string{"-P", p, "-e", "trace=openat", "-e", "inject=openat:error=EACCES:when=1"}, "mkdir", "-e", ".gz")
		judge("strace[openat EACCES] mkdir -e .gz", 1, exit, se, inj)
		j.Remove()
		// ... and EIO when that file is CLOSED (what NFS, FUSE and quota filesystems report there):
		// creating a file is only done when closing it worked
		if j, err = mon.NewJail(c.TmpDir, true); err != nil {
			return
		}
		p = filepath.Join(j.Target, e.Path)
		exit, se, inj, _ = run(j.Target, filepath.Join(j.Root, "stdout.txt"), []string{"-P", p, "-e", "trace=close", "-e", "inject=close:error=EIO:when=1"}, "mkdir", "-e", ".gz")
		judge("strace[close EIO] mkdir -e .gz", 1, exit, se, inj)
		j.Remove()
	}
	// (4) EACCES on the N-th directory listing while verifying a tree that IS there: the walk could
	// not look, so the command must not claim success
	for _, strict := range []bool{false, true} {
		for n := 1; n <= 25; n++ {
			j, err := mon.NewJail(c.TmpDir, true)
			if err != nil {
				return
			}
			mkdirCall(mkdirRoutes[0], string(doc), nil, fsOpts(j.Target, exts, true, false, false, false))
			args := []string{"verify"}
			if strict {
				args = append(args, "--strict")
			}
			exit, se, inj, _ := run(j.Target, filepath.Join(j.Root, "stdout.txt"), []string{"-e", "trace=getdents64", "-e", "inject=getdents64:error=EACCES:when=" + strconv.Itoa(n)}, args...)
			injected := judge("strace[getdents64 EACCES] "+strings.Join(args, " "), n, exit, se, inj)
			j.Remove()
			if !injected {
				break
			}
		}
	}
	cs.N = nil
	if c.WantSample(cs.Kind) {
		c.Sample(cs.Kind, map[string]any{"doc": trunc(string(doc), 300), "note": "strace -f -P <stdout file> -e inject=write:error=ENOSPC:when=N gtree output; fault case iff the log contains (INJECTED)"})
	}
}

// c16Chroot: "--target-dir /" for real. The CLI binary (statically linked) is run inside a chroot
// jail, with the working directory somewhere else inside it; the tree must appear directly under
// the jail's "/" (what the library does for the target "/" is known from a run into an ordinary
// directory), nothing in the working directory, and verify --target-dir / must then succeed.
// Needs root; skipped (and counted) otherwise.
func c16Chroot(c *Ctx, cs *Case, doc []byte, merged model.Forest, exts []string, extArgs []string) {
	if os.Geteuid() != 0 {
		c.Count("chroot_skipped_not_root", 1)
		return
	}
	for _, n := range cs.Names {
		if !fsSafeName(n) {
			return
		}
	}
	for _, rt := range merged {
		if rt.Name == "gtree" || rt.Name == "work" {
			return
		}
	}
	base, err := os.MkdirTemp(c.TmpDir, "chroot")
	if err != nil {
		return
	}
	defer os.RemoveAll(base)
	if err := copyFile(filepath.Join(c.BinDir, "gtree"), filepath.Join(base, "gtree")); err != nil {
		c.Count("chroot_skipped_copy_failed", 1)
		return
	}
	os.Mkdir(filepath.Join(base, "work"), 0o755)
	os.WriteFile(filepath.Join(base, "work", "doc.md"), doc, 0o644)
	run := func(args ...string) cliRes {
		cmd := exec.Command("/gtree", args...)
		cmd.Path = "/gtree"
		cmd.SysProcAttr = &syscall.SysProcAttr{Chroot: base}
		cmd.Dir = "/work"
		cmd.Stdin = bytes.NewReader(doc)
		var so, se bytes.Buffer
		cmd.Stdout, cmd.Stderr = &so, &se
		cmd.Env = []string{"NO_COLOR=1"}
		err := cmd.Run()
		res := cliRes{stdout: so.Bytes(), stderr: se.Bytes()}
		if ee, ok := err.(*exec.ExitError); ok {
			res.exit = ee.ExitCode()
		} else if err != nil {
			res.runErr, res.exit = err, -1
		}
		return res
	}
	// what the library creates for this document in a fresh directory
	jl, err := mon.NewJail(c.TmpDir, true)
	if err != nil {
		return
	}
	lb := jl.Snap()
	lib := mkdirCall(mkdirRoutes[0], string(doc), nil, fsOpts(jl.Target, exts, len(exts) > 0, false, false, false))
	var want []string
	for _, d := range mon.Diff(lb, jl.Snap()) {
		want = append(want, strings.Replace(d, jl.Rel+"/", "", 1))
	}
	jl.Remove()
	if lib.Err != nil || lib.Panic != nil {
		return
	}
	before, _ := mon.Snap(base)
	res := run(append(append([]string{"mkdir"}, extArgs...), "--target-dir", "/")...)
	after, _ := mon.Snap(base)
	got := mon.Diff(before, after)
	sort.Strings(got)
	sort.Strings(want)
	cs.Entry = "mkdir --target-dir / (in a chroot, cwd elsewhere)"
	c.Eval(gen.HashString(string(doc)+"\x00chroot"), true)
	c.Count("chroot_runs", 1)
	det := map[string]any{"doc": trunc(string(doc), 400), "exit": res.exit, "stderr": trunc(string(res.stderr), 300), "created": got, "library_creates": want}
	switch {
	case res.runErr != nil:
		c.Count("chroot_skipped_exec_failed", 1)
	case res.exit != 0:
		c.Violation(cs, "cli.nonzero-on-success", "chroot", det)
	case !sameStrings(got, want):
		c.Violation(cs, "cli.mkdir-effect-differs-from-library", "chroot", det)
	default:
		v := run("verify", "--strict", "--target-dir", "/")
		if v.exit != 0 {
			det["verify_exit"], det["verify_stderr"] = v.exit, trunc(string(v.stderr), 300)
			c.Violation(cs, "cli.nonzero-on-success", "chroot verify", det)
		}
	}
	cs.Entry = ""
}

func copyFile(src, dst string) error {
	b, err := os.ReadFile(src)
	if err != nil {
		return err
	}
	return os.WriteFile(dst, b, 0o755)
}


// c16Watch: "gtree output --watch -f FILE" prints the tree again whenever the file changes. The
// file is changed three ways - rewritten in place, replaced by a rename (an editor's safe save,
// sed -i, git checkout), rewritten in place again - and after each change the next thing the
// process prints must be what the library makes of the file's NEW content. The verdict is about
// content only: if nothing arrives within a generous limit the step is inconclusive.
func c16Watch(c *Ctx, cs *Case) {
	dir, err := os.MkdirTemp(c.TmpDir, "watch")
	if err != nil {
		return
	}
	defer os.RemoveAll(dir)
	file := filepath.Join(dir, "tree.md")
	docs := []string{"- first\n  - a\n  - b\n", "- second\n  - c\n    - d\n- other-root\n", "- third\n  - e\n", "- fourth\n  - f\n  - g\n    - h\n"}
	var opts []gtree.Option
	args := []string{"output", "--watch", "-f", file}
	if cs.Opt["format"] == "json" {
		opts = append(opts, gtree.WithEncodeJSON())
		args = append(args, "--format", "json")
	}
	want := func(doc string) string {
		var b bytes.Buffer
		gtree.OutputFromMarkdown(&b, strings.NewReader(doc), opts...)
		return b.String() + "\n" // the watch loop prints an empty line after every tree
	}
	stamp := time.Now().Add(-time.Hour)
	write := func(i int, byRename bool) {
		stamp = stamp.Add(3 * time.Second)
		if byRename {
			tmp := file + ".new"
			os.WriteFile(tmp, []byte(docs[i]), 0o644)
			os.Chtimes(tmp, stamp, stamp)
			os.Rename(tmp, file)
			return
		}
		os.WriteFile(file, []byte(docs[i]), 0o644)
		os.Chtimes(file, stamp, stamp)
	}
	write(0, false)
	cmd := exec.Command(filepath.Join(c.BinDir, "gtree"), args...)
	cmd.Env = append(os.Environ(), "NO_COLOR=1")
	out, err := cmd.StdoutPipe()
	if err != nil || cmd.Start() != nil {
		c.Inconclusive(cs, "cannot start the watching process")
		return
	}
	defer func() { cmd.Process.Kill(); cmd.Wait() }()
	chunks := make(chan []byte, 64)
	go func() {
		defer close(chunks)
		buf := make([]byte, 65536)
		for {
			n, err := out.Read(buf)
			if n > 0 {
				chunks <- append([]byte(nil), buf[:n]...)
			}
			if err != nil {
				return
			}
		}
	}()
	// gather reads what the process prints until it has been silent for the given time; with
	// first set it waits (up to a generous limit) for the first byte before that
	gather := func(first bool, silence time.Duration) (string, bool) {
		var got []byte
		if first {
			select {
			case b, ok := <-chunks:
				if !ok {
					return "", false
				}
				got = append(got, b...)
			case <-time.After(30 * time.Second):
				return "", false
			}
		}
		for {
			select {
			case b, ok := <-chunks:
				if !ok {
					return string(got), true
				}
				got = append(got, b...)
			case <-time.After(silence):
				return string(got), true
			}
		}
	}
	touch := func() {
		stamp = stamp.Add(3 * time.Second)
		os.Chtimes(file, stamp, stamp)
	}
	cs.Entry = "output --watch" + map[string]string{"": "", "json": " --format json"}[cs.Opt["format"]]
	steps := []struct {
		doc      int
		byRename bool
		how      string
	}{{0, false, "initial content"}, {1, false, "rewritten in place"}, {2, true, "replaced by a rename"}, {3, false, "rewritten in place after the rename"}}
	for si, st := range steps {
		if si > 0 {
			write(st.doc, st.byRename)
		}
		// whatever the process printed while the file was being changed is not judged (a poll may
		// fall between the truncation and the write); once it is quiet the file is stable, its
		// modification time is moved once more, and the refresh THAT causes is judged. A wrong
		// refresh is offered two more chances, so that a delayed earlier one cannot be mistaken for it.
		gather(si == 0, 1200*time.Millisecond)
		w := want(docs[st.doc])
		var shown []string
		ok := false
		for try := 0; try < 3 && !ok; try++ {
			touch()
			got, any := gather(true, 800*time.Millisecond)
			if !any {
				c.Inconclusive(cs, "the watching process printed nothing within the limit after the file (stable, "+st.how+") got a new modification time")
				return
			}
			shown = append(shown, trunc(got, 300))
			// (a stalled process may answer the change and the touch one after the other: the right
			// tree printed more than once is still the right tree)
			ok = got == w || (len(w) > 0 && len(got)%len(w) == 0 && got == strings.Repeat(w, len(got)/len(w)))
		}
		c.Eval(gen.HashString("watch"+cs.Opt["format"]+strconv.Itoa(si)), true)
		c.Count("watch_refreshes_judged", 1)
		if !ok {
			c.Violation(cs, "cli.watch-shows-other-than-the-file", st.how, map[string]any{"step": si, "file_now": docs[st.doc], "printed_after_each_of_three_touches": shown, "want": trunc(w, 600)})
			return
		}
	}
}
