package checks

import (
	"bytes"
	"context"
	"strconv"
	"strings"

	"github.com/ddddddO/gtree"

	"gtverif/gen"
	"gtverif/model"
)

// C01 — text output obeys the tree-drawing rule. Oracle: bytes written == reference renderer
// on the merged forest, err == nil; for the iterator path, the non-iterator path and the
// deprecated alias.

func init() {
	Register(&Check{Prop: "C01", Run: runC01, Replay: func(c *Ctx, cs *Case) { evalC01(c, cs) }})
}

var allNameClasses = []int{gen.ClassPlain, gen.ClassBullet, gen.ClassBlankEdge, gen.ClassUnicode, gen.ClassControl, gen.ClassQuoting, gen.ClassExt, gen.ClassPathHostile, gen.ClassCase}

func runC01(c *Ctx) bool {
	nMax := c.Pick(5, 7)
	gen.ForEachLabeled(nMax, 2, []string{"a", "b"}, func(i int, f model.Forest) {
		if !c.Mine(i) {
			return
		}
		cs := &Case{Idx: i, Kind: "exhaustive", Seed: gen.New(c.Seed, 1, uint64(i)).Uint64()}
		cs.Depths, cs.Names = gen.Depths(f)
		c.Journal(cs)
		evalC01(c, cs)
		c.Progress(false)
	})
	base := gen.CountLabeled(nMax, 2)
	// shape extremes: deep chains, wide stars, many roots, long names around buffer sizes
	extremes := []func() ([]int, []string){
		func() ([]int, []string) { return chain(400), nil },
		func() ([]int, []string) { return chain(33), nil },
		func() ([]int, []string) { return star(1, 300), nil },
		func() ([]int, []string) { return star(60, 9), nil },
		func() ([]int, []string) { return star(11, 11), nil },
		func() ([]int, []string) { return star(3, 2), []string{"long"} },
		// more than 65535 nodes in one document (a node counter or an index that wraps)
		func() ([]int, []string) { return star(260, 256), nil },
	}
	if !c.Quick() {
		extremes = append(extremes, func() ([]int, []string) { return chain(1500), nil })
	}
	// (one parent with more than 2^14 children - 2^16 in the thorough tier; sibling look-up is linear,
	// so these two cases cost seconds, and only this check carries them)
	for _, w := range append(append([]int{}, gen.WideSizes...), c.Pick(16400, 65600)) {
		w := w
		extremes = append(extremes, func() ([]int, []string) {
			d, n := gen.WideDup(w, []int{0, w / 2, w - 2, w - 1})
			return d, append([]string{"\x00given"}, n...)
		})
	}
	for _, depth := range []int{66, 70, 130} {
		depth := depth
		extremes = append(extremes, func() ([]int, []string) {
			d, n := gen.DeepMixed(depth)
			return d, append([]string{"\x00given"}, n...)
		})
	}
	extremes = append(extremes, func() ([]int, []string) {
		d, n := gen.LongDup()
		return d, append([]string{"\x00given"}, n...)
	}, func() ([]int, []string) {
		d, n := gen.TwinSiblings() // different sibling names with equal digests
		return d, append([]string{"\x00given"}, n...)
	})
	for k, mk := range extremes {
		idx := base + k
		if !c.Mine(idx) {
			continue
		}
		depths, flag := mk()
		names := make([]string, len(depths))
		r := gen.New(c.Seed, 102, uint64(k))
		if len(flag) > 0 && flag[0] == "\x00given" {
			copy(names, flag[1:]) // the generator supplies the names
			flag = []string{"\x00given"}
		}
		for i := range names {
			if len(flag) == 1 && flag[0] == "\x00given" {
				break
			}
			names[i] = []string{"a", "b", "c"}[r.Intn(3)] + strconv.Itoa(i%7)
			if flag != nil {
				names[i] = gen.NameOf(r, gen.ClassLong)
			}
		}
		cs := &Case{Idx: idx, Kind: "shape-extreme", Seed: r.Uint64(), Depths: depths, Names: names}
		c.Journal(cs)
		evalC01(c, cs)
		c.Progress(false)
	}
	base += len(extremes)
	nRand := c.Pick(20000, 400000)
	for j := 0; j < nRand; j++ {
		idx := base + j
		if !c.Mine(idx) {
			continue
		}
		r := gen.New(c.Seed, 101, uint64(j))
		classes := allNameClasses
		if r.Chance(1, 25) {
			classes = []int{gen.ClassPlain, gen.ClassLong}
		} else if r.Chance(1, 3) {
			classes = []int{gen.ClassPlain, allNameClasses[r.Intn(len(allNameClasses))]}
		}
		f := gen.RandForest(r, []int{6, 15, 60}[r.Intn(3)], r.Range(2, 12), classes, []int{0, 15, 40}[r.Intn(3)])
		cs := &Case{Idx: idx, Kind: "random", Seed: r.Uint64()}
		cs.Depths, cs.Names = gen.Depths(f)
		c.Journal(cs)
		evalC01(c, cs)
		c.Progress(false)
	}
	return true
}

func c01Spellings(c *Ctx, cs *Case, f model.Forest) []gen.Spelling {
	var sps []gen.Spelling
	r := gen.New(cs.Seed, 5)
	if cs.Kind == "exhaustive" {
		sps = gen.SixSpellings(cs.Seed)
		if !c.Quick() {
			all := gen.AllSpellings(cs.Seed)
			for i := 0; i < 24; i++ {
				sps = append(sps, all[r.Intn(len(all))])
			}
		}
	} else {
		sps = []gen.Spelling{gen.Canonical, gen.RandSpelling(r), gen.RandSpelling(r)}
		if r.Chance(1, 4) {
			s := gen.RandSpelling(r)
			s.LeadBlank = true
			sps = append(sps, s)
		}
	}
	heading := gen.CanHeading(f)
	out := sps[:0]
	for _, s := range sps {
		if s.Heading > 0 && !heading {
			s.Heading = 0
		}
		out = append(out, s)
	}
	return out
}

func evalC01(c *Ctx, cs *Case) {
	f := gen.FromDepths(cs.Depths, cs.Names)
	merged := model.Merge(f)
	nontrivial := merged.Size() >= 3 && (merged.Depth() >= 2 || merged.Size() != f.Size())
	r := gen.New(cs.Seed, 9)
	branches := allBranches()
	if cs.Kind != "exhaustive" {
		branches = []int{0, 3, r.Intn(len(BranchTuples))}
	}
	fkey := f.String()
	spellings := c01Spellings(c, cs, f)
	if len(cs.Depths) > 20000 || (len(cs.Depths) > 1000 && merged.Depth() > 1000) {
		// the giant documents are about counters and indices, not about notation
		spellings, branches = []gen.Spelling{gen.Canonical}, []int{0}
	}
	for _, sp := range spellings {
		doc := gen.Spell(f, sp)
		spkey := fkey + "\x00" + sp.String()
		for _, bi := range branches {
			want := model.Render(merged, BranchTuples[bi])
			bopts := BranchOptions(bi)
			for path := 0; path < 3; path++ {
				var o Outcome
				entry := ""
				switch path {
				case 0:
					entry = "OutputFromMarkdown"
					o = OutputMD(doc, bopts...)
				case 1:
					entry = "OutputFromMarkdown+NoIter"
					// a *strings.Builder as writer (the other paths use a recorder and a *bytes.Buffer)
					var sbw strings.Builder
					Poison(doc, append(append([]gtree.Option{}, bopts...), gtree.WithNoUseIterOfSimpleOutput())...)
					o = Guard(func() error {
						return gtree.OutputFromMarkdown(&sbw, MDReader(doc), append(append([]gtree.Option{}, bopts...), gtree.WithNoUseIterOfSimpleOutput())...)
					})
					o.Out = []byte(sbw.String())
				case 2:
					entry = "Output(alias)"
					var buf bytes.Buffer
					Poison(doc, bopts...)
					o = Guard(func() error { return gtree.Output(&buf, MDReader(doc), bopts...) })
					o.Out = buf.Bytes()
				}
				c.Eval(gen.HashString(spkey+strconv.Itoa(bi)+entry), nontrivial)
				c.SetAdd("entries", entry)
				det := func() map[string]any {
					return map[string]any{"spelling": sp.String(), "branch": bi, "doc": doc, "got": trunc(string(o.Out), 2000), "want": trunc(want, 2000), "err": errStr(o.Err), "forest": f.String()}
				}
				cs.Entry = entry
				switch {
				case o.Panic != nil:
					d := det()
					d["stack"] = o.Stack
					c.Violation(cs, "text.panic", PanicSig(o.Panic, o.Stack), d)
				case o.Err != nil:
					c.Violation(cs, "text.err-on-wellformed", "", det())
				case string(o.Out) != want:
					d := det()
					d["first_diff"] = firstDiff(string(o.Out), want)
					c.Violation(cs, "text.bytes", "", d)
				}
				cs.Entry = ""
			}
		}
		// massive mode: the same lines, root blocks in any order (one call per spelling)
		{
			bi := branches[int(cs.Seed%uint64(len(branches)))]
			cs.Entry = "OutputFromMarkdown+Massive"
			cs.SetDoc(doc)
			c.Rejournal(cs)
			o := OutputMD(doc, append(append([]gtree.Option{}, BranchOptions(bi)...), gtree.WithMassive(context.Background()))...)
			cs.Doc, cs.DocText = nil, ""
			c.Eval(gen.HashString(spkey+strconv.Itoa(bi)+cs.Entry), nontrivial)
			c.SetAdd("entries", cs.Entry)
			det := map[string]any{"spelling": sp.String(), "branch": bi, "doc": doc, "got": trunc(string(o.Out), 2000), "err": errStr(o.Err), "forest": f.String()}
			switch {
			case o.Panic != nil:
				c.Violation(cs, "text.panic", PanicSig(o.Panic, o.Stack), det)
			case o.Err != nil:
				c.Violation(cs, "text.err-on-wellformed", "massive", det)
			case !coverBlocks(string(o.Out), model.RenderBlocks(merged, BranchTuples[bi])):
				c.Violation(cs, "text.bytes", "massive", det)
			}
			cs.Entry = ""
		}
		if nontrivial && c.WantSample(cs.Kind) {
			o := OutputMD(doc, BranchOptions(branches[len(branches)-1])...)
			c.Sample(cs.Kind, map[string]any{"forest": f.String(), "spelling": sp.String(), "doc": doc, "branch": branches[len(branches)-1], "output": string(o.Out)})
		}
	}
}

// chain: one root with a single path of the given depth.
func chain(depth int) []int {
	d := make([]int, depth)
	for i := range d {
		d[i] = i + 1
	}
	return d
}

// star: roots roots, each with kids children (depth 2).
func star(roots, kids int) []int {
	var d []int
	for r := 0; r < roots; r++ {
		d = append(d, 1)
		for k := 0; k < kids; k++ {
			d = append(d, 2)
		}
	}
	return d
}
