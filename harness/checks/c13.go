package checks

import (
	"runtime"
	"context"
	"errors"
	"fmt"
	"strconv"
	"strings"
	"sync"
	"sync/atomic"
	"time"

	"github.com/anishathalye/porcupine"
	"github.com/ddddddO/gtree"
	"github.com/fatih/color"

	"gtverif/gen"
	"gtverif/model"
	"gtverif/mon"
)

// C13 — results depend only on the tree, not on call history or concurrent use. Every client
// call (NewRoot, Add, any operation) is recorded at the client boundary with call/return stamps
// from one logical clock; the sequential specification is the reference model (state = the tree
// as built so far); histories are partitioned by tree and checked with porcupine. Exhaustive
// sequential histories over a small alphabet are stepped through the same specification.

func init() {
	Register(&Check{Prop: "C13", Run: runC13, Replay: func(c *Ctx, cs *Case) {
		if cs.Kind == "concurrent" {
			evalC13Concurrent(c, cs)
			return
		}
		evalC13History(c, cs, cs.History)
	}})
}

// ---- sequential specification ------------------------------------------------------------

type hIn struct {
	Kind   string // "new", "add", "op"
	Tree   int
	Parent []int // index path from the root to the parent (add)
	Name   string
	Op     string // operation kind (op)
}

type hOut struct {
	Existed bool   // add: the name already existed under the parent
	Result  string // op: canonical result
}

func nodeAt(root *model.Node, path []int) *model.Node {
	n := root
	for _, i := range path {
		if i >= len(n.Kids) {
			return nil
		}
		n = n.Kids[i]
	}
	return n
}

// specStep is the deterministic sequential specification of one tree.
func specStep(state any, in any, out any) (bool, any) {
	i, o := in.(hIn), out.(hOut)
	var root *model.Node
	if state != nil {
		root, _ = state.(*model.Node)
	}
	switch i.Kind {
	case "new":
		return root == nil, &model.Node{Name: i.Name}
	case "add":
		if root == nil {
			return false, state
		}
		nr := root.Clone()
		p := nodeAt(nr, i.Parent)
		if p == nil {
			return false, state
		}
		for _, k := range p.Kids {
			if k.Name == i.Name {
				return o.Existed, nr
			}
		}
		p.Kids = append(p.Kids, &model.Node{Name: i.Name})
		return !o.Existed, nr
	case "op":
		if root == nil {
			return false, state
		}
		return o.Result == specResult(root, i.Op), state
	}
	return false, state
}

// specResult is what operation op must yield for the tree.
func specResult(root *model.Node, op string) string {
	f := model.Forest{root}
	if treeHasInvalid(root) {
		switch op {
		case "dryrun", "dryrun.json", "dryrun.massive.x5", "mkdir", "verify", "mkdirfail", "verifyfail":
			return c13Rejected
		}
	}
	switch op {
	case "text":
		return model.Render(f, model.DefaultBranch)
	case "text.b3":
		return model.Render(f, BranchTuples[3])
	case "text.b6":
		return model.Render(f, BranchTuples[6])
	case "text.massive":
		return model.Render(f, model.DefaultBranch)
	case "json.massive":
		return f.String()
	case "walk", "iter", "iter.stored", "walk.massive", "walk.reentrant":
		var sb strings.Builder
		for _, r := range model.Rows(f, model.DefaultBranch) {
			fmt.Fprintf(&sb, "%s|%s|%s|%d|%s|%v\n", r.Row, r.Branch, r.Name, r.Level, r.Path, r.HasChild)
		}
		return sb.String()
	case "walkfail", "iterbreak":
		// a walk whose callback fails (iterator: whose consumer breaks) at visit size/2
		rows := model.Rows(f, model.DefaultBranch)
		k := len(rows) / 2
		var sb strings.Builder
		for _, r := range rows[:k+1] {
			sb.WriteString(r.Row + "\n")
		}
		if op == "walkfail" {
			sb.WriteString("returned the callback's error")
		}
		return sb.String()
	case "textfail", "jsonfail", "dryfail":
		return "write-error reported"
	case "mkdirfail":
		return "ErrExistPath, nothing created"
	case "verifyfail":
		return "verify error"
	case "json":
		return f.String()
	case "dryrun":
		return model.DryRunReport(f, model.DefaultBranch, []string{".gz"})
	case "dryrun.massive.x5":
		// the massive dry run of the tree, five times in a row: the same report every time
		return model.DryRunReport(f, model.DefaultBranch, []string{".gz"})
	case "dryrun.json":
		// Output with the dry-run option AND a (meaningless) encode option: still the dry-run report
		return model.DryRunReport(f, model.DefaultBranch, []string{".gz"})
	case "mkdir":
		return strings.Join(expectedCreated(f, []string{".gz"}, "T"), "\n")
	case "verify":
		return "nil"
	case "unrelated.bigdry":
		return "the large report is the model's"
	case "textpanic":
		return "the writer's panic reached the caller"
	}
	return "?"
}

var c13Model = porcupine.Model{
	Init:  func() any { return (*model.Node)(nil) },
	Step:  specStep,
	Equal: func(a, b any) bool { return stateStr(a) == stateStr(b) },
	DescribeOperation: func(in, out any) string {
		i, o := in.(hIn), out.(hOut)
		return fmt.Sprintf("%s t%d %v %q %s -> existed=%v %q", i.Kind, i.Tree, i.Parent, i.Name, i.Op, o.Existed, trunc(o.Result, 60))
	},
}

func stateStr(s any) string {
	n, _ := s.(*model.Node)
	if n == nil {
		return "<nil>"
	}
	return model.Forest{n}.String()
}

// ---- executing operations on the real library --------------------------------------------

type liveTree struct {
	id    int
	root  *gtree.Node
	nodes map[string]*gtree.Node // index path (as string) -> node
	known map[*gtree.Node]bool
	shape *model.Node // what the harness asked for (for choosing parents), merged as gtree does
	last  []int       // path of the most recently added node
	// stored is the sequence value WalkIterFromRoot returned the first time "iter.stored" ran on
	// this tree; every later "iter.stored" ranges over the same value again
	stored func(yield func(*gtree.WalkerNode, error) bool)
}

func pathKey(p []int) string { return fmt.Sprint(p) }

func newLive(id int, name string) *liveTree {
	g := gtree.NewRoot(name)
	return &liveTree{id: id, root: g, nodes: map[string]*gtree.Node{"[]": g}, known: map[*gtree.Node]bool{g: true}, shape: &model.Node{Name: name}}
}

// add performs parent.Add(name) and reports whether an existing node came back.
func (t *liveTree) add(parent []int, name string) bool {
	p := t.nodes[pathKey(parent)]
	ch := p.Add(name)
	existed := t.known[ch]
	t.known[ch] = true
	sp := nodeAt(t.shape, parent)
	idx := -1
	for i, k := range sp.Kids {
		if k.Name == name {
			idx = i
		}
	}
	if idx < 0 {
		sp.Kids = append(sp.Kids, &model.Node{Name: name})
		idx = len(sp.Kids) - 1
	}
	np := append(append([]int(nil), parent...), idx)
	t.nodes[pathKey(np)] = ch
	t.last = np
	return existed
}

// runOp executes one operation and canonicalises its result; tmp is a scratch dir for jails.
func (t *liveTree) runOp(op, tmp string) string {
	switch op {
	case "text", "text.b3", "text.b6":
		bi := map[string]int{"text": 0, "text.b3": 3, "text.b6": 6}[op]
		w := mon.NewRecWriter()
		o := Guard(func() error { return gtree.OutputFromRoot(w, t.root, BranchOptions(bi)...) })
		if o.Panic != nil || o.Err != nil {
			return "ERR:" + errStr(o.Err) + fmt.Sprint(o.Panic)
		}
		return string(w.Bytes())
	case "text.massive", "json.massive":
		w := mon.NewRecWriter()
		opts := []gtree.Option{gtree.WithMassive(context.Background())}
		if op == "json.massive" {
			opts = append(opts, gtree.WithEncodeJSON())
		}
		o := Guard(func() error { return gtree.OutputFromRoot(w, t.root, opts...) })
		if o.Panic != nil || o.Err != nil {
			return "ERR:" + errStr(o.Err) + fmt.Sprint(o.Panic)
		}
		if op == "json.massive" {
			f, err := DecodeJSONLines(w.Bytes())
			if err != nil {
				return "UNDECODABLE:" + err.Error()
			}
			return f.String()
		}
		return string(w.Bytes())
	case "walk.massive":
		var mu sync.Mutex
		var sb strings.Builder
		var keptM []*gtree.WalkerNode
		o := Guard(func() error {
			return gtree.WalkFromRoot(t.root, func(wn *gtree.WalkerNode) error {
				mu.Lock()
				defer mu.Unlock()
				fmt.Fprintf(&sb, "%s|%s|%s|%d|%s|%v\n", wn.Row(), wn.Branch(), wn.Name(), wn.Level(), wn.Path(), wn.HasChild())
				keptM = append(keptM, wn)
				return nil
			}, gtree.WithMassive(context.Background()))
		})
		if o.Panic != nil || o.Err != nil {
			return "ERR:" + errStr(o.Err) + fmt.Sprint(o.Panic)
		}
		var againM strings.Builder
		for _, wn := range keptM {
			fmt.Fprintf(&againM, "%s|%s|%s|%d|%s|%v\n", wn.Row(), wn.Branch(), wn.Name(), wn.Level(), wn.Path(), wn.HasChild())
		}
		if againM.String() != sb.String() {
			return "KEPT NODES CHANGED AFTER THE WALK: " + trunc(againM.String(), 200)
		}
		return sb.String()
	case "walk.reentrant":
		// the callback itself uses the library: it builds another tree, adds to it and renders it
		// (a user copying or printing while walking). The walk must come back with the usual rows.
		var sb strings.Builder
		done := make(chan Outcome, 1)
		go func() {
			done <- Guard(func() error {
				other := gtree.NewRoot("copy")
				return gtree.WalkFromRoot(t.root, func(wn *gtree.WalkerNode) error {
					fmt.Fprintf(&sb, "%s|%s|%s|%d|%s|%v\n", wn.Row(), wn.Branch(), wn.Name(), wn.Level(), wn.Path(), wn.HasChild())
					other.Add(wn.Name())
					if err := gtree.OutputFromRoot(mon.NewRecWriter(), other); err != nil {
						return err
					}
					return gtree.WalkFromRoot(other, func(*gtree.WalkerNode) error { return nil })
				})
			})
		}()
		select {
		case o := <-done:
			if o.Panic != nil || o.Err != nil {
				return "ERR:" + errStr(o.Err) + fmt.Sprint(o.Panic)
			}
			return sb.String()
		case <-time.After(20 * time.Second):
			// twenty seconds for a handful of nodes: the nested call never came back
			return "THE WALK WHOSE CALLBACK USES THE LIBRARY DID NOT RETURN"
		}
	case "walk":
		var sb strings.Builder
		var kept []*gtree.WalkerNode
		o := Guard(func() error {
			return gtree.WalkFromRoot(t.root, func(wn *gtree.WalkerNode) error {
				fmt.Fprintf(&sb, "%s|%s|%s|%d|%s|%v\n", wn.Row(), wn.Branch(), wn.Name(), wn.Level(), wn.Path(), wn.HasChild())
				kept = append(kept, wn)
				return nil
			})
		})
		if o.Panic != nil || o.Err != nil {
			return "ERR:" + errStr(o.Err) + fmt.Sprint(o.Panic)
		}
		// what the callback kept still describes the visits, in order
		var again strings.Builder
		for _, wn := range kept {
			fmt.Fprintf(&again, "%s|%s|%s|%d|%s|%v\n", wn.Row(), wn.Branch(), wn.Name(), wn.Level(), wn.Path(), wn.HasChild())
		}
		if again.String() != sb.String() {
			return "KEPT NODES CHANGED AFTER THE WALK: " + trunc(again.String(), 200)
		}
		return sb.String()
	case "iter.stored":
		if t.stored == nil {
			t.stored = gtree.WalkIterFromRoot(t.root)
		}
		var sb strings.Builder
		o := Guard(func() error {
			for wn, err := range t.stored {
				if err != nil {
					return err
				}
				fmt.Fprintf(&sb, "%s|%s|%s|%d|%s|%v\n", wn.Row(), wn.Branch(), wn.Name(), wn.Level(), wn.Path(), wn.HasChild())
			}
			return nil
		})
		if o.Panic != nil || o.Err != nil {
			return "ERR:" + errStr(o.Err) + fmt.Sprint(o.Panic)
		}
		return sb.String()
	case "iter":
		var sb strings.Builder
		o := Guard(func() error {
			for wn, err := range gtree.WalkIterFromRoot(t.root) {
				if err != nil {
					return err
				}
				fmt.Fprintf(&sb, "%s|%s|%s|%d|%s|%v\n", wn.Row(), wn.Branch(), wn.Name(), wn.Level(), wn.Path(), wn.HasChild())
			}
			return nil
		})
		if o.Panic != nil || o.Err != nil {
			return "ERR:" + errStr(o.Err) + fmt.Sprint(o.Panic)
		}
		return sb.String()
	case "dryfail":
		// a dry-run report (with a stray encode option, through the caller's writer) whose writer
		// fails: reported, and nothing of it may turn up in a later report
		w := mon.NewRecWriter()
		w.FailAt = 0
		w.Short = true
		o := Guard(func() error {
			return gtree.OutputFromRoot(w, t.root, gtree.WithDryRun(), gtree.WithEncodeJSON(), gtree.WithFileExtensions(c13Ext))
		})
		if o.Panic != nil {
			return "PANIC"
		}
		if o.Err != nil {
			return "write-error reported"
		}
		return "nil although the writer failed"
	case "textpanic":
		// the caller's writer panics in its second Write (an aborted HTTP handler does that) and the
		// caller recovers: the panic is the caller's to see, and nothing of the aborted call may
		// turn up in a later one
		pw := &c13PanickyWriter{at: 1}
		o := Guard(func() error { return gtree.OutputFromRoot(pw, t.root) })
		if o.Panic == nil {
			if pw.n <= pw.at {
				return "the writer's panic reached the caller" // (a tree of one line: the second Write never came)
			}
			return "the writer panicked but the call returned " + errStr(o.Err)
		}
		return "the writer's panic reached the caller"
	case "textfail", "jsonfail":
		// the writer fails at its first write: the call must report it (and leave nothing behind
		// that a later operation could see)
		w := mon.NewRecWriter()
		w.FailAt = 0
		var opts []gtree.Option
		if op == "jsonfail" {
			opts = append(opts, gtree.WithEncodeJSON())
		}
		o := Guard(func() error { return gtree.OutputFromRoot(w, t.root, opts...) })
		if o.Panic != nil {
			return "PANIC"
		}
		if o.Err != nil {
			return "write-error reported"
		}
		return "nil although the writer failed"
	case "mkdirfail":
		j, err := mon.NewJail(tmp, true)
		if err != nil {
			return "JAIL"
		}
		defer j.Remove()
		mkdirAll(j.Target + "/" + t.shape.Name)
		before := j.Snap()
		o := Guard(func() error { return gtree.MkdirFromRoot(t.root, gtree.WithTargetDir(j.Target)) })
		if treeHasInvalid(t.shape) {
			return rejectedAs(o, len(mon.Diff(before, j.Snap())) != 0, 0)
		}
		if o.Panic != nil {
			return "PANIC"
		}
		if errors.Is(o.Err, gtree.ErrExistPath) && len(mon.Diff(before, j.Snap())) == 0 {
			return "ErrExistPath, nothing created"
		}
		return "ERR:" + errStr(o.Err) + " diff=" + strings.Join(mon.Diff(before, j.Snap()), ",")
	case "verifyfail":
		j, err := mon.NewJail(tmp, true)
		if err != nil {
			return "JAIL"
		}
		defer j.Remove()
		o := Guard(func() error { return gtree.VerifyFromRoot(t.root, gtree.WithTargetDir(j.Target)) })
		if treeHasInvalid(t.shape) {
			return rejectedAs(o, false, 0)
		}
		if o.Panic != nil {
			return "PANIC"
		}
		if o.Err != nil {
			return "verify error"
		}
		return "nil although the directory is empty"
	case "walkfail":
		k := t.shape.Size() / 2
		sentinel := fmt.Errorf("sentinel")
		var sb strings.Builder
		n := 0
		o := Guard(func() error {
			return gtree.WalkFromRoot(t.root, func(wn *gtree.WalkerNode) error {
				sb.WriteString(wn.Row() + "\n")
				n++
				if n == k+1 {
					return sentinel
				}
				return nil
			})
		})
		if o.Panic != nil {
			return "PANIC"
		}
		if o.Err == sentinel {
			sb.WriteString("returned the callback's error")
		} else {
			sb.WriteString("ERR:" + errStr(o.Err))
		}
		return sb.String()
	case "iterbreak":
		k := t.shape.Size() / 2
		var sb strings.Builder
		n := 0
		o := Guard(func() error {
			for wn, err := range gtree.WalkIterFromRoot(t.root) {
				if err != nil {
					return err
				}
				sb.WriteString(wn.Row() + "\n")
				n++
				if n == k+1 {
					break
				}
			}
			return nil
		})
		if o.Panic != nil || o.Err != nil {
			return "ERR:" + errStr(o.Err) + fmt.Sprint(o.Panic)
		}
		return sb.String()
	case "json":
		w := mon.NewRecWriter()
		o := Guard(func() error { return gtree.OutputFromRoot(w, t.root, gtree.WithEncodeJSON()) })
		if o.Panic != nil || o.Err != nil {
			return "ERR:" + errStr(o.Err) + fmt.Sprint(o.Panic)
		}
		f, err := DecodeJSONLines(w.Bytes())
		if err != nil {
			return "UNDECODABLE:" + err.Error()
		}
		return f.String()
	case "dryrun.massive.x5":
		// "repeating an operation repeats its result": error text included
		var first string
		var firstO Outcome
		var firstRep []byte
		for i := 0; i < 5; i++ {
			var o Outcome
			base := runtime.NumGoroutine()
			rep := captureColorOutput(func() {
				o = Guard(func() error {
					return gtree.MkdirFromRoot(t.root, gtree.WithDryRun(), gtree.WithFileExtensions(c13Ext), gtree.WithMassive(context.Background()))
				})
				c13Quiet.Quiesce(base)
			})
			cur := errStr(o.Err) + "|" + string(rep)
			if o.Panic != nil {
				return "PANIC"
			}
			if i == 0 {
				first, firstO, firstRep = cur, o, rep
			} else if cur != first {
				return "NOT REPEATABLE: call 1 gave " + strconv.Quote(trunc(first, 120)) + ", call " + strconv.Itoa(i+1) + " gave " + strconv.Quote(trunc(cur, 120))
			}
		}
		if treeHasInvalid(t.shape) {
			return rejectedAs(firstO, false, len(firstRep))
		}
		if firstO.Err != nil {
			return "ERR:" + errStr(firstO.Err)
		}
		return sgrSeq.ReplaceAllString(string(firstRep), "")
	case "dryrun.json":
		w := mon.NewRecWriter()
		o := Guard(func() error {
			if len(t.shape.Kids)%2 == 1 {
				// (the same options in another order: encode first)
				return gtree.OutputFromRoot(w, t.root, gtree.WithEncodeJSON(), gtree.WithFileExtensions(c13Ext), gtree.WithDryRun())
			}
			return gtree.OutputFromRoot(w, t.root, gtree.WithDryRun(), gtree.WithEncodeJSON(), gtree.WithFileExtensions(c13Ext))
		})
		if treeHasInvalid(t.shape) {
			return rejectedAs(o, false, 0)
		}
		if o.Panic != nil || o.Err != nil {
			return "ERR:" + errStr(o.Err) + fmt.Sprint(o.Panic)
		}
		return sgrSeq.ReplaceAllString(string(w.Bytes()), "")
	case "unrelated.bigdry":
		// a dry run of ANOTHER, large tree (its report is longer than 64 KiB) somewhere in the
		// history: whatever the library keeps from it must not reach a later report
		big, want := c13BigTree()
		var o Outcome
		rep := captureColorOutput(func() {
			o = Guard(func() error { return gtree.MkdirFromRoot(big, gtree.WithDryRun(), gtree.WithFileExtensions(c13Ext)) })
		})
		if o.Panic != nil || o.Err != nil {
			return "ERR:" + errStr(o.Err) + fmt.Sprint(o.Panic)
		}
		if got := sgrSeq.ReplaceAllString(string(rep), ""); got != want {
			return "LARGE REPORT DIFFERS: " + strconv.Itoa(len(got)) + " bytes, want " + strconv.Itoa(len(want)) + "; begins " + strconv.Quote(trunc(got, 80))
		}
		return "the large report is the model's"
	case "dryrun":
		var o Outcome
		rep := captureColorOutput(func() {
			o = Guard(func() error {
				return gtree.MkdirFromRoot(t.root, gtree.WithDryRun(), gtree.WithFileExtensions(c13Ext))
			})
		})
		if treeHasInvalid(t.shape) {
			return rejectedAs(o, false, len(rep))
		}
		if o.Panic != nil || o.Err != nil {
			return "ERR:" + errStr(o.Err) + fmt.Sprint(o.Panic)
		}
		return sgrSeq.ReplaceAllString(string(rep), "") // (colour sequences, when switched on, are presentation)
	case "mkdir":
		j, err := mon.NewJail(tmp, true)
		if err != nil {
			return "JAIL"
		}
		defer j.Remove()
		before := j.Snap()
		o := Guard(func() error {
			return gtree.MkdirFromRoot(t.root, gtree.WithTargetDir(j.Target), gtree.WithFileExtensions(c13Ext))
		})
		if open := mon.OpenUnder(j.Root); len(open) > 0 {
			return "DESCRIPTORS STILL OPEN AFTER THE CALL: " + strings.Join(open, ", ")
		}
		if treeHasInvalid(t.shape) {
			return rejectedAs(o, len(mon.Diff(before, j.Snap())) != 0, 0)
		}
		if o.Panic != nil || o.Err != nil {
			return "ERR:" + errStr(o.Err) + fmt.Sprint(o.Panic)
		}
		d := mon.Diff(before, j.Snap())
		for i := range d {
			d[i] = strings.Replace(d[i], j.Rel, "T", 1)
		}
		return strings.Join(d, "\n")
	case "verify":
		j, err := mon.NewJail(tmp, true)
		if err != nil {
			return "JAIL"
		}
		defer j.Remove()
		// the directory is built from the harness's own record of the tree
		for _, e := range model.FSEntries(model.Forest{t.shape}, nil) {
			mkdirAll(j.Target + "/" + e.Path)
		}
		o := Guard(func() error {
			return gtree.VerifyFromRoot(t.root, gtree.WithTargetDir(j.Target), gtree.WithStrictVerify())
		})
		if treeHasInvalid(t.shape) {
			return rejectedAs(o, false, 0)
		}
		if o.Panic != nil {
			return "PANIC"
		}
		if o.Err != nil {
			return "ERR:" + o.Err.Error()
		}
		return "nil"
	}
	return "?"
}

// ---- (a) exhaustive sequential histories -----------------------------------------------------

// history tokens: "N" NewRoot; "A<t><r|l><a|b>" Add to tree t under root / last-added with name;
// "O<t>:<op>" operation on tree t.
func runC13(c *Ctx) bool {
	if c.Race {
		return runC13Concurrent(c)
	}
	L := c.Pick(8, 10)
	idx := 0
	// pass 1: text output, length <= L; pass 2: the other operation kinds at smaller L
	passes := []struct {
		ops []string
		L   int
	}{
		{[]string{"text"}, L},
		{[]string{"walk", "iter", "json", "text.b6", "dryrun"}, L - 1},
		{[]string{"walkfail", "walk", "iterbreak", "iter"}, L - 2}, // an aborted walk, then further walks
		{[]string{"textfail", "text", "jsonfail", "json"}, L - 2},  // a failed write, then further output
		{[]string{"iterbreak", "iter", "walk", "text"}, L - 2},     // an abandoned iterator, then further operations
		{[]string{"mkdirfail", "mkdir", "verifyfail", "verify"}, L - 3},
		{[]string{"mkdir", "verify"}, L - 2},
		{[]string{"dryrun.json", "text.b3", "json"}, L - 2}, // dry run with a stray encode option, before and after other outputs
		{[]string{"dryrun.massive.x5", "walk"}, L - 3},
		{[]string{"dryfail", "dryrun.json"}, L - 2}, // a failed dry-run report, then dry-run reports
		{[]string{"iter.stored", "text.b3"}, L - 2},   // one sequence value ranged over again and again while the tree grows
		{[]string{"walk.reentrant", "text"}, L - 3},
		{[]string{"unrelated.bigdry", "dryrun"}, L - 4}, // a report beyond 64 KiB earlier in the history
		{[]string{"textpanic", "text", "json"}, L - 3},   // an output whose writer panicked (recovered by the caller), then further output
	}
	for _, ps := range passes {
		var hist []string
		var rec func(nTrees int, adds []int)
		rec = func(nTrees int, adds []int) {
			// extend with an operation (terminal: a history is judged on its final operation)
			if nTrees > 0 {
				for t := 0; t < nTrees; t++ {
					for _, op := range ps.ops {
						i := idx
						idx++
						if c.Mine(i) {
							h := append(append([]string(nil), hist...), "O"+strconv.Itoa(t)+":"+op)
							cs := &Case{Idx: i, Kind: "exhaustive-seq", History: h}
							c.Journal(cs)
							evalC13History(c, cs, h)
							c.Progress(false)
						}
					}
				}
			}
			if len(hist) >= ps.L-1 {
				return
			}
			// non-terminal extensions
			if nTrees < 2 {
				hist = append(hist, "N")
				rec(nTrees+1, append(append([]int(nil), adds...), 0))
				hist = hist[:len(hist)-1]
			}
			for t := 0; t < nTrees; t++ {
				for _, par := range []string{"r", "l"} {
					if par == "l" && adds[t] == 0 {
						continue
					}
					for _, name := range []string{"a", "b"} {
						hist = append(hist, "A"+strconv.Itoa(t)+par+name)
						na := append([]int(nil), adds...)
						na[t]++
						rec(nTrees, na)
						hist = hist[:len(hist)-1]
					}
				}
				// an intermediate operation on the tree (earlier operations must not change later results)
				hist = append(hist, "O"+strconv.Itoa(t)+":"+ps.ops[0])
				rec(nTrees, adds)
				hist = hist[:len(hist)-1]
			}
		}
		rec(0, nil)
	}
	// (a2) deep chains: a node far below the root, operations repeated while the chain grows
	for _, depth := range []int{12, 17, 18, 19, 33, 40, 70} {
		i := idx
		idx++
		if !c.Mine(i) {
			continue
		}
		h := []string{"N"}
		for d := 0; d < depth; d++ {
			h = append(h, "A0l"+[]string{"a", "b"}[d%2])
			if d%5 == 4 || d >= depth-3 {
				h = append(h, "O0:"+[]string{"text", "walk", "text.b3", "iter", "dryrun"}[d%5])
			}
		}
		h = append(h, "O0:text", "O0:text", "A0ra", "O0:text.b6", "O0:walk")
		cs := &Case{Idx: i, Kind: "deep-chain", History: h}
		c.Journal(cs)
		evalC13History(c, cs, h)
		c.Progress(false)
	}
	// (b) random sequential histories
	nRand := c.Pick(400, 8000)
	for j := 0; j < nRand; j++ {
		i := idx
		idx++
		if !c.Mine(i) {
			continue
		}
		r := gen.New(c.Seed, 1301, uint64(j))
		h := randHistory(r, r.Range(20, 200), 6)
		cs := &Case{Idx: i, Kind: "random-seq", History: h, Seed: r.Uint64()}
		c.Journal(cs)
		evalC13History(c, cs, h)
		c.Progress(false)
	}
	// (c) concurrent: the same kind of histories split across goroutines (also run on the race worker)
	return runC13Concurrent(c)
}

var c13Ops = []string{"text", "text.b3", "text.b6", "walk", "iter", "json", "walk.massive", "text.massive", "json.massive", "walkfail", "iterbreak", "textfail", "jsonfail", "dryrun", "mkdir", "verify", "mkdirfail", "verifyfail", "dryrun.json", "dryrun.massive.x5", "dryfail", "iter.stored", "walk.reentrant", "unrelated.bigdry", "textpanic"}
var c13Names = []string{"a", "b", "c", "A", "B", "x.gz", "d e", "日本", "x/y", "p/q"} // the last two are not path elements: mkdir, verify and dry run must reject the tree, whatever happened to it before

const c13Rejected = "REJECTED: invalid name, nothing created or reported"

var c13Quiet = mon.NewLeakMonitor()

func treeHasInvalid(n *model.Node) bool {
	if n == nil {
		return false
	}
	if strings.Contains(n.Name, "/") {
		return true
	}
	for _, k := range n.Kids {
		if treeHasInvalid(k) {
			return true
		}
	}
	return false
}

// rejectedAs canonicalises the outcome of a validating operation on a tree with an invalid name.
func rejectedAs(o Outcome, changed bool, printed int) string {
	switch {
	case o.Panic != nil:
		return "PANIC"
	case o.Err == nil:
		return "ACCEPTED a tree with an invalid name"
	case errors.Is(o.Err, gtree.ErrExistPath):
		return "ErrExistPath instead of the name error"
	case changed:
		return "rejected, but the filesystem changed"
	case printed > 0:
		return "rejected, but a report was printed"
	}
	if _, _, ok := parseVerifyErr(o.Err.Error()); ok {
		return "a verify report instead of the name error: " + o.Err.Error()
	}
	return c13Rejected
}

func randHistory(r *gen.Rand, n, maxTrees int) []string {
	var h []string
	trees := 0
	adds := map[int]int{}
	for len(h) < n {
		switch k := r.Intn(10); {
		case trees == 0 || (k == 0 && trees < maxTrees):
			h = append(h, "N")
			trees++
		case k <= 6:
			t := r.Intn(trees)
			par := "r"
			if adds[t] > 0 && r.Chance(2, 3) {
				par = "l"
			}
			h = append(h, "A"+strconv.Itoa(t)+par+c13Names[r.Intn(len(c13Names))])
			adds[t]++
		default:
			ops := c13Ops
			if r.Chance(3, 4) {
				ops = c13Ops[:14]
			}
			h = append(h, "O"+strconv.Itoa(r.Intn(trees))+":"+ops[r.Intn(len(ops))])
		}
	}
	return h
}

// evalC13History executes a sequential history on fresh trees, records it and checks every
// tree's partition with porcupine.
func evalC13History(c *Ctx, cs *Case, h []string) {
	if cs.Idx%4 == 0 {
		// a quarter of the sequential histories run with colour switched on, as on a terminal: the
		// dry-run reports are then coloured (compared after removing the sequences); nothing else,
		// before or after, may be
		old := color.NoColor
		color.NoColor = false
		defer func() { color.NoColor = old }()
		c.Count("histories_with_colour_on", 1)
	}
	var clock int64
	var trees []*liveTree
	parts := map[int][]porcupine.Operation{}
	rec := func(t int, in hIn, fn func() hOut) {
		call := atomic.AddInt64(&clock, 1)
		out := fn()
		ret := atomic.AddInt64(&clock, 1)
		parts[t] = append(parts[t], porcupine.Operation{ClientId: 0, Input: in, Call: call, Output: out, Return: ret})
	}
	nOps := 0
	for _, tok := range h {
		switch tok[0] {
		case 'N':
			id := len(trees)
			name := "r" + strconv.Itoa(id)
			rec(id, hIn{Kind: "new", Tree: id, Name: name}, func() hOut {
				trees = append(trees, newLive(id, name))
				return hOut{}
			})
		case 'A':
			rest := tok[1:]
			k := 0
			for k < len(rest) && rest[k] >= '0' && rest[k] <= '9' {
				k++
			}
			t := atoi(rest[:k])
			lt := trees[t]
			parent := []int{}
			if rest[k] == 'l' && lt.last != nil {
				parent = lt.last
			}
			name := rest[k+1:]
			rec(t, hIn{Kind: "add", Tree: t, Parent: append([]int(nil), parent...), Name: name}, func() hOut {
				return hOut{Existed: lt.add(parent, name)}
			})
		case 'O':
			colon := strings.IndexByte(tok, ':')
			t := atoi(tok[1:colon])
			op := tok[colon+1:]
			lt := trees[t]
			rec(t, hIn{Kind: "op", Tree: t, Op: op}, func() hOut { return hOut{Result: lt.runOp(op, c.TmpDir)} })
			nOps++
			c.SetAdd("ops", op)
		}
	}
	c13CheckParts(c, cs, parts, h, nOps)
}

func c13CheckParts(c *Ctx, cs *Case, parts map[int][]porcupine.Operation, h []string, nOps int) {
	key := gen.HashString(strings.Join(h, " "))
	for t, ops := range parts {
		res, info := porcupine.CheckOperationsVerbose(c13Model, ops, 60*time.Second)
		c.Eval(key+uint64(t), nOps > 0 && len(h) >= 4)
		c.Count("partitions", 1)
		c.Count("operations", int64(len(ops)))
		switch res {
		case porcupine.Unknown:
			c.Inconclusive(cs, "porcupine timeout")
		case porcupine.Illegal:
			_ = info
			// witness: the partition's operations; the first operation whose result the model rejects
			var desc []string
			var state any = c13Model.Init()
			firstBad := ""
			for _, op := range ops {
				ok, ns := specStep(state, op.Input, op.Output)
				d := c13Model.DescribeOperation(op.Input, op.Output)
				if !ok && firstBad == "" {
					firstBad = d
					in := op.Input.(hIn)
					if in.Kind == "op" {
						root, _ := state.(*model.Node)
						if root != nil {
							desc = append(desc, "EXPECTED: "+trunc(specResult(root, in.Op), 300))
						}
					}
				}
				state = ns
				desc = append(desc, d)
			}
			opKind := ""
			if i := strings.Index(firstBad, " -> "); i >= 0 {
				f := strings.Fields(firstBad[:i])
				opKind = f[len(f)-1]
			}
			cs.Entry = opKind
			c.Violation(cs, "history.illegal", opKind, map[string]any{"history": h, "tree": t, "partition": desc, "first_rejected": firstBad})
			cs.Entry = ""
		}
	}
	if c.WantSample(cs.Kind) && nOps > 0 {
		c.Sample(cs.Kind, map[string]any{"history": h, "partitions": len(parts)})
	}
}

// ---- (c) concurrent histories -----------------------------------------------------------------

func runC13Concurrent(c *Ctx) bool {
	n := c.Pick(60, 1500)
	if c.Race {
		n = c.Pick(40, 600)
	}
	base := 1 << 40 // indices disjoint from the sequential part
	for j := 0; j < n; j++ {
		if j%c.NShards != c.Shard || base+j < c.Start {
			continue
		}
		r := gen.New(c.Seed, 1302, uint64(j))
		cs := &Case{Idx: base + j, Kind: "concurrent", Seed: r.Uint64(), N: []int{r.Range(2, 8), r.Intn(2)}}
		c.Journal(cs)
		evalC13Concurrent(c, cs)
		c.Progress(false)
	}
	return true
}

type handoff struct {
	t   *liveTree
	ops []porcupine.Operation
}

func evalC13Concurrent(c *Ctx, cs *Case) {
	G := cs.N[0]
	withHandoff := cs.N[1] == 1
	var clock int64
	var mu sync.Mutex
	parts := map[int][]porcupine.Operation{}
	var nextID int64
	ch := make(chan *handoff, 64)
	var wg sync.WaitGroup
	mdViol := make(chan string, 64)
	steps := 60
	if !c.Quick() {
		steps = 150
	}
	opsConc := []string{"text", "text.b3", "text.b6", "walk", "iter", "json", "walk.massive", "text.massive", "walkfail", "iterbreak", "textfail", "jsonfail", "mkdir", "verify", "mkdirfail", "verifyfail"} // no dry-run: it prints to the process-wide color.Output
	for g := 0; g < G; g++ {
		wg.Add(1)
		go func(g int) {
			defer wg.Done()
			r := gen.New(cs.Seed, 5, uint64(g))
			var own []*handoff
			var keptErr error // the error of this goroutine's previous rejected document ...
			var keptText string // ... and what it said when it was returned
			for s := 0; s < steps; s++ {
				switch k := r.Intn(12); {
				case len(own) == 0 || (k == 0 && len(own) < 3):
					id := int(atomic.AddInt64(&nextID, 1)) - 1
					name := "r" + strconv.Itoa(id)
					call := atomic.AddInt64(&clock, 1)
					lt := newLive(id, name)
					ret := atomic.AddInt64(&clock, 1)
					own = append(own, &handoff{t: lt, ops: []porcupine.Operation{{ClientId: g, Input: hIn{Kind: "new", Tree: id, Name: name}, Call: call, Output: hOut{}, Return: ret}}})
				case k <= 6:
					h := own[r.Intn(len(own))]
					parent := []int{}
					if h.t.last != nil && r.Chance(2, 3) {
						parent = h.t.last
					}
					name := c13Names[r.Intn(len(c13Names))]
					call := atomic.AddInt64(&clock, 1)
					ex := h.t.add(parent, name)
					ret := atomic.AddInt64(&clock, 1)
					h.ops = append(h.ops, porcupine.Operation{ClientId: g, Input: hIn{Kind: "add", Tree: h.t.id, Parent: append([]int(nil), parent...), Name: name}, Call: call, Output: hOut{Existed: ex}, Return: ret})
				case k <= 9:
					h := own[r.Intn(len(own))]
					op := opsConc[r.Intn(len(opsConc))]
					if op == "mkdir" || op == "verify" || op == "mkdirfail" || op == "verifyfail" {
						if !r.Chance(1, 4) {
							op = "text"
						}
					}
					call := atomic.AddInt64(&clock, 1)
					res := h.t.runOp(op, c.TmpDir)
					ret := atomic.AddInt64(&clock, 1)
					h.ops = append(h.ops, porcupine.Operation{ClientId: g, Input: hIn{Kind: "op", Tree: h.t.id, Op: op}, Call: call, Output: hOut{Result: res}, Return: ret})
					c.SetAdd("ops", op)
				case k == 10 && withHandoff && r.Chance(1, 2):
					// hand a tree to another goroutine / take one over
					if len(own) > 1 {
						select {
						case ch <- own[len(own)-1]:
							own = own[:len(own)-1]
							c.Count("handoffs", 1)
						default:
						}
					}
					select {
					case h := <-ch:
						own = append(own, h)
					default:
					}
				default:
					// an independent From-Markdown call running concurrently: must equal its stand-alone result
					f := gen.RandForest(r, 12, 4, []int{gen.ClassPlain, gen.ClassUnicode}, 10)
					doc := gen.Spell(f, gen.RandSpelling(r))
					if r.Chance(1, 3) {
						// a REJECTED document: a line without a bullet that carries a marker unique to this
						// call. Alone, the call returns an error naming that line; it must do so here, and
						// the error value must keep saying so while other calls fail elsewhere.
						marker := fmt.Sprintf("marker-c%d-g%d-s%d", cs.Idx%100000, g, s)
						ls := strings.Split(gen.Spell(f, gen.Canonical), "\n")
						at := r.Intn(len(ls))
						ls = append(ls[:at], append([]string{"x " + marker}, ls[at:]...)...)
						var bo Outcome
						if r.Chance(1, 2) {
							bo = OutputMD(strings.Join(ls, "\n"))
						} else {
							bo = Guard(func() error {
								return gtree.WalkFromMarkdown(MDReader(strings.Join(ls, "\n")), func(*gtree.WalkerNode) error { return nil })
							})
						}
						c.Count("concurrent_rejected_markdown_calls", 1)
						what := ""
						switch {
						case bo.Panic != nil:
							what = "panic: " + fmt.Sprint(bo.Panic)
						case bo.Err == nil:
							what = "accepted a line without a bullet (" + marker + ")"
						case !strings.Contains(bo.Err.Error(), marker):
							what = "the error of the call with " + marker + " says: " + bo.Err.Error()
						case keptErr != nil && keptErr.Error() != keptText:
							what = "an error returned earlier said " + strconv.Quote(keptText) + " and now says " + strconv.Quote(keptErr.Error())
						}
						if what != "" {
							select {
							case mdViol <- "rejected-document: " + what:
							default:
							}
						}
						if bo.Err != nil {
							keptErr, keptText = bo.Err, bo.Err.Error()
						}
						continue
					}
					want := model.Render(model.Merge(f), model.DefaultBranch)
					var o Outcome
					kind := r.Intn(6)
					switch kind {
					case 5:
						// a dry-run report written to the caller's own writer: the per-root counts must be
						// this call's, whatever other dry runs are going on
						o = OutputMD(doc, gtree.WithDryRun(), gtree.WithFileExtensions([]string{".gz", "b"}))
						if o.Err == nil && string(o.Out) == model.DryRunReport(model.Merge(f), model.DefaultBranch, []string{".gz", "b"}) {
							o.Out = []byte(want)
						}
					case 3, 4:
						// massive JSON / YAML: overlapping massive calls with the same encoding must not mix
						enc, dec := gtree.WithEncodeJSON(), DecodeJSONLines
						if kind == 4 {
							enc, dec = gtree.WithEncodeYAML(), DecodeYAMLDocs
						}
						o = OutputMD(doc, enc, gtree.WithMassive(context.Background()))
						if df, err := dec(o.Out); err == nil && o.Err == nil {
							var a, b []string
							for _, x := range df {
								a = append(a, model.Forest{x}.String())
							}
							for _, x := range model.Merge(f) {
								b = append(b, model.Forest{x}.String())
							}
							if sameMultiset(a, b) {
								o.Out = []byte(want)
							}
						}
					case 0:
						o = OutputMD(doc)
					case 1:
						o = OutputMD(doc, gtree.WithMassive(context.Background()))
						if o.Err == nil && coverBlocks(string(o.Out), model.RenderBlocks(model.Merge(f), model.DefaultBranch)) {
							o.Out = []byte(want)
						}
					case 2:
						o = OutputMD(doc, gtree.WithEncodeJSON())
						if df, err := DecodeJSONLines(o.Out); err == nil && model.Equal(df, model.Merge(f)) {
							o.Out = []byte(want)
						}
					}
					c.Count("concurrent_markdown_calls", 1)
					if o.Panic != nil || o.Err != nil || string(o.Out) != want {
						select {
						case mdViol <- fmt.Sprintf("kind=%d doc=%q err=%v panic=%v out=%q", kind, doc, o.Err, o.Panic, trunc(string(o.Out), 300)):
						default:
						}
					}
				}
			}
			mu.Lock()
			for _, h := range own {
				parts[h.t.id] = append(parts[h.t.id], h.ops...)
			}
			mu.Unlock()
		}(g)
	}
	wg.Wait()
	// a burst of dry-run reports at the same moment from all goroutines, each of its own document:
	// every report must carry its own tree and its own counts
	var bw sync.WaitGroup
	startBurst := make(chan struct{})
	for g := 0; g < G; g++ {
		bw.Add(1)
		go func(g int) {
			defer bw.Done()
			r := gen.New(cs.Seed, 6, uint64(g))
			f := gen.RandForest(r, 30, 4, []int{gen.ClassPlain, gen.ClassExt}, 10)
			c08Safe(f) // names a dry run accepts
			sp := gen.RandSpelling(r)
			if !gen.CanHeading(f) {
				sp.Heading = 0
			}
			doc := gen.Spell(f, sp)
			// every second goroutine asks for its reports WITHOUT an extension option (everything is a
			// directory then) and asks often: nothing inside the computation of a report yields, so
			// only many overlapping calls make two of them meet
			exts, rounds := []string{".gz", "b"}, 12
			extOpt := []gtree.Option{gtree.WithFileExtensions([]string{".gz", "b"})}
			if g%2 == 1 {
				exts, rounds, extOpt = nil, 400, nil
			}
			want := model.DryRunReport(model.Merge(f), model.DefaultBranch, exts)
			<-startBurst
			for k := 0; k < rounds; k++ {
				var o Outcome
				if k%2 == 0 {
					o = OutputMD(doc, append([]gtree.Option{gtree.WithDryRun()}, extOpt...)...)
				} else {
					o = OutputMD(doc, append([]gtree.Option{gtree.WithDryRun(), gtree.WithNoUseIterOfSimpleOutput()}, extOpt...)...)
				}
				c.Count("concurrent_dry_run_reports", 1)
				if o.Panic != nil || o.Err != nil || string(o.Out) != want {
					select {
					case mdViol <- fmt.Sprintf("dry-run burst: doc=%q err=%v panic=%v report=%q want=%q", doc, o.Err, o.Panic, trunc(string(o.Out), 300), trunc(want, 300)):
					default:
					}
					return
				}
			}
		}(g)
	}
	close(startBurst)
	bw.Wait()
	close(ch)
	for h := range ch {
		parts[h.t.id] = append(parts[h.t.id], h.ops...)
	}
	close(mdViol)
	for v := range mdViol {
		cs.Entry = "FromMarkdown(concurrent)"
		c.Violation(cs, "concurrent-markdown.differs-from-alone", "", map[string]any{"what": v, "goroutines": G})
		cs.Entry = ""
	}
	nOps := 0
	for _, ops := range parts {
		nOps += len(ops)
	}
	c.SetAdd("goroutines", strconv.Itoa(G))
	c13CheckParts(c, cs, parts, []string{"concurrent", "seed=" + strconv.FormatUint(cs.Seed, 10), "G=" + strconv.Itoa(G), "handoff=" + strconv.FormatBool(withHandoff)}, nOps)
}

// c13Ext is ONE extension slice (with a repeated entry) handed to every call of this check, as a
// caller who prepared its options once would do; the specification reads {".gz"}.
var c13Ext = []string{".gz", ".md", ".gz"}


var (
	c13BigOnce sync.Once
	c13BigNode *gtree.Node
	c13BigWant string
)

// c13BigTree: one root with 3500 children (a dry-run report of about 90 KiB) and the report the
// model expects for it.
func c13BigTree() (*gtree.Node, string) {
	c13BigOnce.Do(func() {
		m := &model.Node{Name: "big-unrelated-tree"}
		for i := 0; i < 3500; i++ {
			m.Kids = append(m.Kids, &model.Node{Name: "entry-" + strconv.Itoa(i) + "-padding"})
		}
		c13BigNode = BuildRoot(m)
		c13BigWant = model.DryRunReport(model.Forest{m}, model.DefaultBranch, c13Ext)
	})
	return c13BigNode, c13BigWant
}


// c13PanickyWriter accepts `at` writes and panics in the next one.
type c13PanickyWriter struct{ n, at int }

func (w *c13PanickyWriter) Write(p []byte) (int, error) {
	w.n++
	if w.n > w.at {
		panic("writer aborted (like http.ErrAbortHandler)")
	}
	return len(p), nil
}
