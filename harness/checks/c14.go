package checks

import (
	"bufio"
	"bytes"
	"context"
	"errors"
	"fmt"
	"io"
	"os"
	"strings"
	"runtime"
	"strconv"

	"github.com/ddddddO/gtree"

	"gtverif/gen"
	"gtverif/model"
	"gtverif/mon"
)

// C14 — reader and writer failures are reported. Fault enumeration: the reader fails with a
// sentinel after every byte offset, the writer fails at every write index (plain error and
// short write). Oracle: reader failure => errors.Is(err, sentinel); any failed or short write
// => err != nil; err == nil => the writer accepted exactly the fault-free output.

func init() {
	Register(&Check{Prop: "C14", Run: runC14, Replay: func(c *Ctx, cs *Case) { evalC14(c, cs) }})
}

func runC14(c *Ctx) bool {
	nDocs := c.Pick(48, 1600)
	for j := 0; j < nDocs; j++ {
		if !c.Mine(j) {
			continue
		}
		r := gen.New(c.Seed, 1401, uint64(j))
		classes := []int{gen.ClassPlain, gen.ClassExt, gen.ClassBullet, gen.ClassUnicode}
		f := gen.RandForest(r, []int{3, 6, 12}[j%3], r.Range(2, 5), classes, 0)
		if j%16 == 5 {
			// output larger than one / two 4096-byte buffers
			f = gen.RandForest(r, 60, 4, []int{gen.ClassPlain}, 0)
			for len(f.String()) < []int{5000, 9000}[(j/16)%2] {
				f = append(f, gen.RandForest(r, 60, 4, []int{gen.ClassPlain}, 0)...)
			}
		}
		if j%16 == 9 {
			// ONE root whose rendering exceeds one / two 4096-byte buffers - or, every third time,
			// two 32 KiB chunks (about 70 KiB)
			n := []int{180, 400, 2600}[(j/16)%3]
			depths := make([]int, n)
			names := make([]string, n)
			for i := range depths {
				switch {
				case i == 0:
					depths[i] = 1
				case i == 1:
					depths[i] = 2
				default:
					depths[i] = 2 + i%3
					if depths[i] > depths[i-1]+1 {
						depths[i] = depths[i-1] + 1
					}
				}
				names[i] = "node-with-a-long-name-" + strconv.Itoa(i)
			}
			names[0] = "bigroot"
			f = gen.FromDepths(depths, names)
		}
		c08Safe(f)
		sp := gen.RandSpelling(r)
		if !gen.CanHeading(f) || j%4 != 0 {
			sp.Heading = 0
		}
		cs := &Case{Idx: j, Kind: "corpus", Seed: r.Uint64()}
		cs.Depths, cs.Names = gen.Depths(f)
		cs.SetDoc(gen.Spell(f, sp))
		if sp.Heading > 0 {
			cs.AddTag("heading-roots")
		}
		c.Journal(cs)
		evalC14(c, cs)
		c.Progress(false)
	}
	return true
}

var c14Quiet = mon.NewLeakMonitor()

const numBadFiles = 4

// badFile returns an *os.File on which every write of at least one byte fails.
func badFile(tmp string, kind int) (*os.File, string, func()) {
	switch kind {
	case 0:
		f, err := os.OpenFile("/dev/full", os.O_WRONLY, 0)
		if err != nil {
			return nil, "", nil
		}
		return f, "/dev/full", func() { f.Close() }
	case 1:
		f, err := os.CreateTemp(tmp, "closed")
		if err != nil {
			return nil, "", nil
		}
		f.Close()
		os.Remove(f.Name())
		return f, "closed-file", func() {}
	case 2:
		f, err := os.CreateTemp(tmp, "ro")
		if err != nil {
			return nil, "", nil
		}
		name := f.Name()
		f.Close()
		r, err := os.Open(name)
		os.Remove(name)
		if err != nil {
			return nil, "", nil
		}
		return r, "read-only-descriptor", func() { r.Close() }
	default:
		r, w, err := os.Pipe()
		if err != nil {
			return nil, "", nil
		}
		r.Close()
		return w, "pipe-without-reader", func() { w.Close() }
	}
}

type c14Mode struct {
	name string
	opts func() []gtree.Option
}

func c14Modes() []c14Mode {
	return []c14Mode{
		{"text", func() []gtree.Option { return nil }},
		{"branch", func() []gtree.Option { return BranchOptions(3) }},
		{"json", func() []gtree.Option { return []gtree.Option{gtree.WithEncodeJSON()} }},
		{"yaml", func() []gtree.Option { return []gtree.Option{gtree.WithEncodeYAML()} }},
		{"toml", func() []gtree.Option { return []gtree.Option{gtree.WithEncodeTOML()} }},
		{"dryrun", func() []gtree.Option {
			return []gtree.Option{gtree.WithDryRun(), gtree.WithFileExtensions([]string{".gz"})}
		}},
		{"text.noiter", func() []gtree.Option { return []gtree.Option{gtree.WithNoUseIterOfSimpleOutput()} }},
	}
}

func evalC14(c *Ctx, cs *Case) {
	doc := cs.Doc
	f := gen.FromDepths(cs.Depths, cs.Names)
	heading := cs.HasTag("heading-roots")
	baseTags := append([]string(nil), cs.Tags...)
	defer func() { cs.Tags = baseTags; cs.Entry = ""; cs.N = nil }()
	// ------------------------------------------------------------------ reader failures
	type rEntry struct {
		name string
		fs   bool
		run  func(rd *mon.FaultReader, massive bool, target string) error
	}
	mo := func(massive bool, o ...gtree.Option) []gtree.Option {
		if massive {
			o = append(o, gtree.WithMassive(context.Background()))
		}
		return o
	}
	rEntries := []rEntry{
		{"OutputFromMarkdown[text]", false, func(rd *mon.FaultReader, m bool, _ string) error {
			return gtree.OutputFromMarkdown(mon.NewRecWriter(), rd, mo(m)...)
		}},
		{"OutputFromMarkdown[text.noiter]", false, func(rd *mon.FaultReader, m bool, _ string) error {
			return gtree.OutputFromMarkdown(mon.NewRecWriter(), rd, mo(m, gtree.WithNoUseIterOfSimpleOutput())...)
		}},
		{"OutputFromMarkdown[json]", false, func(rd *mon.FaultReader, m bool, _ string) error {
			return gtree.OutputFromMarkdown(mon.NewRecWriter(), rd, mo(m, gtree.WithEncodeJSON())...)
		}},
		{"OutputFromMarkdown[dryrun]", false, func(rd *mon.FaultReader, m bool, _ string) error {
			return gtree.OutputFromMarkdown(mon.NewRecWriter(), rd, mo(m, gtree.WithDryRun())...)
		}},
		{"WalkFromMarkdown", false, func(rd *mon.FaultReader, m bool, _ string) error {
			return gtree.WalkFromMarkdown(rd, func(*gtree.WalkerNode) error { return nil }, mo(m)...)
		}},
		{"VerifyFromMarkdown", true, func(rd *mon.FaultReader, m bool, t string) error {
			return gtree.VerifyFromMarkdown(rd, mo(m, gtree.WithTargetDir(t))...)
		}},
		{"MkdirFromMarkdown", true, func(rd *mon.FaultReader, m bool, t string) error {
			return gtree.MkdirFromMarkdown(rd, mo(m, gtree.WithTargetDir(t))...)
		}},
	}
	// what the failing reader / writer returns: a plain sentinel, or an error a real stream could
	// give and that a pipeline might be tempted to treat as "not a failure" (cancellation of
	// SOMETHING ELSE than the massive context, a deadline, an unexpected EOF, a closed file)
	faultErrs := []error{
		errors.New("reader-sentinel"),
		fmt.Errorf("request body: %w", context.Canceled),
		context.DeadlineExceeded,
		io.ErrUnexpectedEOF,
		&os.PathError{Op: "read", Path: "/somewhere", Err: os.ErrClosed},
		fmt.Errorf("stream: %w", io.ErrClosedPipe),
	}
	faultErrNames := []string{"sentinel", "wraps-context.Canceled", "context.DeadlineExceeded", "io.ErrUnexpectedEOF", "PathError(os.ErrClosed)", "wraps-io.ErrClosedPipe"}
	offsets := make([]int, 0, len(doc)+1)
	stride := 1
	if len(doc) > 2000 {
		stride = len(doc)/40 + 1 // the large documents are there for the buffer boundaries on the writer side
	} else if len(doc) > 220 {
		stride = len(doc)/200 + 1
	}
	for k := 0; k <= len(doc); k += stride {
		offsets = append(offsets, k)
	}
	if offsets[len(offsets)-1] != len(doc) {
		offsets = append(offsets, len(doc))
	}
	for ei, e := range rEntries {
		for _, massive := range []bool{false, true} {
			if massive && heading {
				continue // heading roots in massive mode: known finding of C10
			}
			for _, k := range offsets {
				if e.fs && (k+ei)%4 != 0 {
					continue // filesystem entry points at a quarter of the offsets
				}
				mode := map[bool]string{true: "massive", false: "simple"}[massive]
				cs.Entry = e.name + "," + mode
				cs.N = []int{k}
				cs.Tags = append(append([]string(nil), baseTags...), "reader-fault", mode)
				// input-class predicate: the delivered prefix, taken as a document of its own, is
				// rejected (its last, partial line is malformed)
				if k < len(doc) && OutputMD(string(doc[:k])).Err != nil {
					cs.AddTag("partial-line-malformed")
				}
				target := ""
				var j *mon.Jail
				if e.fs {
					var err error
					if j, err = mon.NewJail(c.TmpDir, true); err != nil {
						continue
					}
					target = j.Target
					if e.name == "VerifyFromMarkdown" {
						// the tree exists, so that no verify error competes with the reader's error
						mkdirCall(mkdirRoutes[0], string(doc), nil, fsOpts(target, nil, false, false, false, false))
					}
				}
				if massive {
					c.Rejournal(cs)
				}
				fe := (k + ei + int(cs.Seed%7)) % len(faultErrs)
				sentinel := faultErrs[fe]
				c.SetAdd("injected_error_kinds", faultErrNames[fe])
				rd := &mon.FaultReader{Doc: doc, K: k, Chunk: 1 + (k*7+ei)%13, Err: sentinel, ErrWithData: (k+ei)%2 == 1}
				if rd.ErrWithData {
					c.Count("reader_faults_delivered_together_with_data", 1)
				}
				if (k+ei)%3 == 0 {
					// the Read fails ONCE; asked again, the reader would go on (the call must not ask again
					// and report success: the failure it was told of is the caller's to hear)
					rd.Transient = true
					c.Count("reader_faults_that_happen_only_once", 1)
				}
				base := runtime.NumGoroutine()
				o := Guard(func() error { return e.run(rd, massive, target) })
				if massive {
					c14Quiet.Quiesce(base)
				}
				if j != nil {
					j.Remove()
				}
				c.Eval(gen.HashString(string(doc)+"\x00R"+cs.Entry+strconv.Itoa(k)), true)
				c.Count("reader_faults", 1)
				c.SetAdd("entries", cs.Entry)
				det := map[string]any{"doc": string(doc), "offset": k, "delivered": string(doc[:k]), "err": errStr(o.Err), "injected": faultErrNames[fe]}
				switch {
				case o.Panic != nil:
					det["stack"] = o.Stack
					c.Violation(cs, "panic", PanicSig(o.Panic, o.Stack), det)
				case rd.Failed == 0:
					// the call returned without ever hitting the failing read: the fault did not take effect
					c.Inconclusive(cs, "reader fault at offset "+strconv.Itoa(k)+" never reached ("+cs.Entry+")")
				case !errors.Is(o.Err, sentinel):
					c.Violation(cs, "reader.error-not-returned", "", det)
				}
			}
		}
	}
	// ------------------------------------------------------------------ writer failures
	for _, fam := range []string{"FromMarkdown", "FromRoot"} {
		if fam == "FromRoot" && len(f) != 1 {
			continue
		}
		for _, m := range c14Modes() {
			if m.name == "toml" && len(f) != 1 {
				continue
			}
			if fam == "FromRoot" && (m.name == "dryrun" || m.name == "text.noiter") {
				continue
			}
			for _, massive := range []bool{false, true} {
				if massive && (heading || m.name == "text.noiter") {
					continue
				}
				mode := map[bool]string{true: "massive", false: "simple"}[massive]
				run := func(w io.Writer) Outcome {
					opts := mo(massive, m.opts()...)
					if fam == "FromRoot" {
						g := BuildRoot(f[0])
						return Guard(func() error { return gtree.OutputFromRoot(w, g, opts...) })
					}
					return Guard(func() error { return gtree.OutputFromMarkdown(w, MDReader(string(doc)), opts...) })
				}
				// fault-free run: number of writes and reference output
				ref := mon.NewRecWriter()
				base := runtime.NumGoroutine()
				ro := run(ref)
				if massive {
					c14Quiet.Quiesce(base)
				}
				if ro.Err != nil || ro.Panic != nil {
					continue // other properties' business
				}
				writes, _, _ := ref.Stats()
				refOut := ref.Bytes()
				var refBlocks []string
				if massive {
					merged := model.Merge(f)
					switch m.name {
					case "text":
						refBlocks = model.RenderBlocks(merged, model.DefaultBranch)
					case "branch":
						refBlocks = model.RenderBlocks(merged, BranchTuples[3])
					case "dryrun":
						refBlocks = model.DryRunBlocks(merged, model.DefaultBranch, []string{".gz"})
					}
				}
				// real files that refuse writes: a full device, a closed file, a read-only descriptor,
				// a pipe nobody reads
				if len(refOut) > 0 {
					for fk := 0; fk < numBadFiles; fk++ {
						bf, name, cleanup := badFile(c.TmpDir, fk)
						if bf == nil {
							continue
						}
						cs.Entry = "Output" + fam + "[" + m.name + "]," + mode
						cs.N = []int{fk}
						cs.Tags = append(append([]string(nil), baseTags...), "writer-fault", "os.File", name, mode, m.name)
						if massive {
							c.Rejournal(cs)
						}
						base := runtime.NumGoroutine()
						o := run(bf)
						if massive {
							c14Quiet.Quiesce(base)
						}
						cleanup()
						c.Eval(gen.HashString(string(doc)+"\x00F"+cs.Entry+name), true)
						c.Count("file_writer_faults", 1)
						c.SetAdd("failing_file_kinds", name)
						det := map[string]any{"doc": trunc(string(doc), 600), "file": name, "expected_output_bytes": len(refOut), "err": errStr(o.Err)}
						switch {
						case o.Panic != nil:
							det["stack"] = o.Stack
							c.Violation(cs, "panic", PanicSig(o.Panic, o.Stack), det)
						case o.Err == nil:
							c.Violation(cs, "writer.failure-swallowed", "os.File:"+name, det)
						}
					}
				}
				// the caller's writer IS a *bufio.Writer (small buffer) over a device that fails from its
				// k-th write on: whenever the device has refused something before the call returned, the
				// bufio.Writer has told the library so in the result of a Write, and the call must fail
				if len(refOut) > 64 && !massive || len(refOut) > 64 && m.name != "toml" {
					for _, k := range []int{0, 1, 2} {
						dev := mon.NewRecWriter()
						dev.FailAt = k
						bw := bufio.NewWriterSize(dev, 16)
						cs.Entry = "Output" + fam + "[" + m.name + "]," + mode
						cs.N = []int{k}
						cs.Tags = append(append([]string(nil), baseTags...), "writer-fault", "bufio.Writer-over-failing-device", mode, m.name)
						if massive {
							c.Rejournal(cs)
						}
						base := runtime.NumGoroutine()
						o := run(bw)
						if massive {
							c14Quiet.Quiesce(base)
						}
						_, failed, _ := dev.Stats()
						c.Eval(gen.HashString(string(doc)+"\x00B"+cs.Entry+strconv.Itoa(k)), true)
						c.Count("bufio_writer_faults", 1)
						det := map[string]any{"doc": trunc(string(doc), 600), "device_fails_from_write": k, "device_refusals_before_return": failed, "err": errStr(o.Err)}
						switch {
						case o.Panic != nil:
							det["stack"] = o.Stack
							c.Violation(cs, "panic", PanicSig(o.Panic, o.Stack), det)
						case failed > 0 && o.Err == nil:
							c.Violation(cs, "writer.failure-swallowed", "bufio.Writer", det)
						}
					}
				}
				// every write index for ordinary output; for outputs with many writes the first, the
				// last, those around the middle and a seeded dozen
				indices := make([]int, 0, writes)
				if writes <= 40 {
					for i := 0; i < writes; i++ {
						indices = append(indices, i)
					}
				} else {
					pick := map[int]bool{0: true, 1: true, 2: true, writes / 2: true, writes/2 + 1: true, writes - 3: true, writes - 2: true, writes - 1: true}
					rr := gen.New(cs.Seed, 14, uint64(writes))
					for k := 0; k < 12; k++ {
						pick[rr.Intn(writes)] = true
					}
					for i := 0; i < writes; i++ {
						if pick[i] {
							indices = append(indices, i)
						}
					}
				}
				for _, i := range indices {
					for variant := 0; variant < 4; variant++ {
						short, transient, fullCount := variant == 1, variant == 2, variant == 3
						cs.Entry = "Output" + fam + "[" + m.name + "]," + mode
						cs.N = []int{i, writes}
						cs.Tags = append(append([]string(nil), baseTags...), "writer-fault", mode, m.name)
						if short {
							cs.AddTag("short-write")
						}
						if transient {
							cs.AddTag("transient-failure")
						}
						if fullCount {
							cs.AddTag("full-count-with-error")
						}
						if massive {
							c.Rejournal(cs)
						}
						w := mon.NewRecWriter()
						w.FailAt, w.Short, w.Transient, w.FullCount = i, short, transient, fullCount
						fe := (i + variant + int(cs.Seed%5)) % len(faultErrs)
						w.Err = faultErrs[fe]
						base := runtime.NumGoroutine()
						o := run(w)
						if massive {
							c14Quiet.Quiesce(base)
						}
						_, failed, _ := w.Stats()
						c.Eval(gen.HashString(string(doc)+"\x00W"+cs.Entry+strconv.Itoa(i)+strconv.Itoa(variant)), true)
						c.Count("writer_faults", 1)
						c.SetAdd("entries", cs.Entry)
						det := map[string]any{"doc": string(doc), "write_index": i, "writes": writes, "short": short, "transient": transient, "failed_writes": failed, "err": errStr(o.Err), "injected": faultErrNames[fe], "accepted": trunc(string(w.Bytes()), 600)}
						switch {
						case o.Panic != nil:
							det["stack"] = o.Stack
							c.Violation(cs, "panic", PanicSig(o.Panic, o.Stack), det)
						case failed > 0 && o.Err == nil:
							c.Violation(cs, "writer.failure-swallowed", m.name, det)
						case failed == 0 && o.Err == nil:
							// massive mode may order roots differently, so the failing index may not be reached
							// only if fewer writes happened; then everything must have been accepted
							ok := string(w.Bytes()) == string(refOut)
							if massive && !ok && refBlocks != nil {
								ok = coverBlocks(string(w.Bytes()), refBlocks)
							} else if massive && !ok {
								ok = len(w.Bytes()) == len(refOut)
							}
							if !ok {
								c.Violation(cs, "writer.nil-but-output-incomplete", m.name, det)
							}
						}
					}
				}
			}
		}
	}
	// ------------------------------------------------------------------ concrete writer types in sequence
	// a call into an in-memory buffer, then a call whose writer fails, then a call into another
	// buffer: each call must use ITS writer (a callee that special-cases *bytes.Buffer /
	// *strings.Builder must not keep one across calls)
	if !heading {
		for _, massive := range []bool{false, true} {
			mode := map[bool]string{true: "massive", false: "simple"}[massive]
			cs.Entry = "OutputFromMarkdown[text]," + mode
			cs.Tags = append(append([]string(nil), baseTags...), "writer-sequence", mode)
			if massive {
				c.Rejournal(cs)
			}
			call := func(w io.Writer) Outcome {
				base := runtime.NumGoroutine()
				o := Guard(func() error { return gtree.OutputFromMarkdown(w, MDReader(string(doc)), mo(massive)...) })
				if massive {
					c14Quiet.Quiesce(base)
				}
				return o
			}
			var b1 bytes.Buffer
			o1 := call(&b1)
			first := b1.String()
			fw := mon.NewRecWriter()
			fw.FailAt = 0
			o2 := call(fw)
			_, failed, _ := fw.Stats()
			var sb strings.Builder
			o3 := call(&sb)
			c.Eval(gen.HashString(string(doc)+"\x00wseq"+mode), true)
			c.Count("writer_sequences", 1)
			det := map[string]any{"doc": trunc(string(doc), 600), "first_len": len(first), "first_buffer_len_after": b1.Len(), "third_len": sb.Len(), "err2": errStr(o2.Err), "failed_writes_2": failed}
			switch {
			case o1.Panic != nil || o2.Panic != nil || o3.Panic != nil:
				c.Violation(cs, "panic", "writer-sequence", det)
			case o1.Err != nil || o3.Err != nil:
				// other properties' business
			case o2.Err == nil:
				c.Violation(cs, "writer.failure-swallowed", "sequence", det)
			case b1.String() != first:
				c.Violation(cs, "writer.earlier-writer-written-later", "sequence", det)
			case len(sb.String()) != len(first):
				c.Violation(cs, "writer.nil-but-output-incomplete", "sequence", det)
			}
		}
	}
	if c.WantSample(cs.Kind) {
		c.Sample(cs.Kind, map[string]any{"doc": string(doc), "reader_offsets": len(offsets), "note": "reader fails after each offset; writer fails at each write index (error and short write)"})
	}
}
