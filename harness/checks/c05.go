package checks

import (
	"context"
	"io"
	"io/fs"
	"fmt"
	"errors"
	"strconv"
	"strings"

	"github.com/ddddddO/gtree"

	"gtverif/gen"
	"gtverif/model"
	"gtverif/mon"
)

// C05 — walk visits the rendered tree. Oracle: recorded visit sequence == lines of the text
// output with the same options == model rows (Row, Branch, Name, Level, Path, HasChild);
// a failing callback at visit k ends the walk after exactly k+1 callbacks with that very error;
// leaving the iterator at visit k ends it after exactly k+1 visits.

func init() {
	Register(&Check{Prop: "C05", Run: runC05, Replay: func(c *Ctx, cs *Case) {
		if cs.Kind == "very-deep" {
			evalC05Deep(c, cs)
			return
		}
		evalC05(c, cs)
	}})
}

var c05Classes = []int{gen.ClassPlain, gen.ClassBullet, gen.ClassBlankEdge, gen.ClassUnicode, gen.ClassQuoting, gen.ClassExt, gen.ClassControl, gen.ClassCase}

func pathElem(n string) bool {
	return n != "" && n != "." && n != ".." && !strings.Contains(n, "/")
}

func runC05(c *Ctx) bool {
	nMax := c.Pick(5, 7)
	gen.ForEachLabeled(nMax, 2, []string{"a", "b"}, func(i int, f model.Forest) {
		if !c.Mine(i) {
			return
		}
		cs := &Case{Idx: i, Kind: "exhaustive", Seed: uint64(i)}
		cs.Depths, cs.Names = gen.Depths(f)
		c.Journal(cs)
		evalC05(c, cs)
		c.Progress(false)
	})
	base := gen.CountLabeled(nMax, 2)
	nRand := c.Pick(6000, 400000)
	for j := 0; j < nRand; j++ {
		idx := base + j
		if !c.Mine(idx) {
			continue
		}
		r := gen.New(c.Seed, 501, uint64(j))
		f := gen.RandForest(r, []int{6, 15, 60}[r.Intn(3)], r.Range(2, 10), c05Classes, []int{0, 20}[r.Intn(2)])
		cs := &Case{Idx: idx, Kind: "random", Seed: r.Uint64()}
		cs.Depths, cs.Names = gen.Depths(f)
		for k, n := range cs.Names {
			if !pathElem(n) {
				cs.Names[k] = "p" + strings.ReplaceAll(strings.ReplaceAll(n, "/", "_"), ".", "d")
			}
		}
		c.Journal(cs)
		evalC05(c, cs)
		c.Progress(false)
	}
	// wide parents around 32 / 64 / 128 / 256 children with the first, a middle, the last-but-one
	// and the last name written again later, and spines deeper than 64 / 128 levels with
	// alternating last / not-last ancestors
	var shapes [][2]any
	for _, w := range gen.WideSizes {
		d, n := gen.WideDup(w, []int{0, w / 2, w - 2, w - 1})
		shapes = append(shapes, [2]any{d, n})
	}
	for _, depth := range []int{66, 70, 130} {
		d, n := gen.DeepMixed(depth)
		shapes = append(shapes, [2]any{d, n})
	}
	{
		d, n := gen.LongDup() // repeated sibling names of 63 ... 255 bytes
		shapes = append(shapes, [2]any{d, n})
		d, n = gen.TwinSiblings() // different sibling names with equal digests
		shapes = append(shapes, [2]any{d, n})
	}
	for k, sh := range shapes {
		idx := base + nRand + k
		if !c.Mine(idx) {
			continue
		}
		cs := &Case{Idx: idx, Kind: "wide-or-deep", Depths: sh[0].([]int), Names: sh[1].([]string), Seed: uint64(idx)}
		c.Journal(cs)
		evalC05(c, cs)
		c.Progress(false)
	}
	// one spine deeper than 1024 levels (the library's cost grows with the cube of the depth: one
	// From-Root walk only, 1030 levels in the quick tier, 2060 in the thorough one)
	{
		idx := base + nRand + len(shapes)
		if c.Mine(idx) {
			d := chain(c.Pick(1030, 2060))
			names := make([]string, len(d))
			for i := range names {
				names[i] = "n" + strconv.Itoa(i%10)
			}
			cs := &Case{Idx: idx, Kind: "very-deep", Depths: d, Names: names, Seed: uint64(idx)}
			c.Journal(cs)
			evalC05Deep(c, cs)
			c.Progress(false)
		}
	}
	return true
}

func evalC05Deep(c *Ctx, cs *Case) {
	f := gen.FromDepths(cs.Depths, cs.Names)
	want := model.Rows(f, model.DefaultBranch)
	rec := NewRowRec()
	g := BuildRoot(f[0])
	o := Guard(func() error { return gtree.WalkFromRoot(g, rec.Callback) })
	rec.Seal(&o)
	c.Eval(gen.HashString("very-deep"+strconv.Itoa(len(cs.Depths))), true)
	c.Count("levels_of_the_deepest_walk", int64(len(cs.Depths)))
	cs.Entry = "WalkFromRoot"
	defer func() { cs.Entry = "" }()
	switch {
	case o.Panic != nil:
		c.Violation(cs, "panic", PanicSig(o.Panic, o.Stack), map[string]any{"depth": len(cs.Depths), "stack": o.Stack})
	case o.Err != nil:
		c.Violation(cs, "walk.error", "", map[string]any{"depth": len(cs.Depths), "err": errStr(o.Err)})
	case len(rec.Rows) != len(want):
		c.Violation(cs, "rows.differ-from-model", "very-deep", map[string]any{"depth": len(cs.Depths), "visits": len(rec.Rows)})
	default:
		for i := range want {
			if rec.Rows[i] != want[i] {
				c.Violation(cs, "rows.differ-from-model", "very-deep", map[string]any{"depth": len(cs.Depths), "visit": i, "level": want[i].Level,
					"got": trunc(rec.Rows[i].Row, 60) + " ... " + tail(rec.Rows[i].Row, 30) + " | path " + tail(rec.Rows[i].Path, 30) + " | level " + strconv.Itoa(rec.Rows[i].Level),
					"want": trunc(want[i].Row, 60) + " ... " + tail(want[i].Row, 30) + " | path " + tail(want[i].Path, 30)})
				break
			}
		}
	}
}

func tail(s string, n int) string {
	if len(s) <= n {
		return s
	}
	return s[len(s)-n:]
}

// c05StopErr: the value a callback fails with. Every other one is the caller's own error; the
// rest are values a consumer of other walking APIs might return out of habit (fs.SkipAll,
// fs.SkipDir, io.EOF, context errors, the library's own exported errors) and wrapped / joined /
// typed errors: whatever it is, the walk returns THAT value.
type c05TypedErr struct{ k int }

func (e *c05TypedErr) Error() string { return "typed-" + strconv.Itoa(e.k) }

func c05StopErr(i int, text string) error {
	if i%2 == 0 {
		return errors.New(text)
	}
	switch (i / 2) % 12 {
	case 0:
		return fs.SkipAll
	case 1:
		return fs.SkipDir
	case 2:
		return io.EOF
	case 3:
		return context.Canceled
	case 4:
		return context.DeadlineExceeded
	case 5:
		return fmt.Errorf("stop here: %w", fs.SkipAll)
	case 6:
		return errors.Join(errors.New(text), io.ErrUnexpectedEOF)
	case 7:
		return &c05TypedErr{i}
	case 8:
		return gtree.ErrExistPath
	case 9:
		return gtree.ErrNilNode
	case 10:
		return io.ErrClosedPipe
	}
	return fmt.Errorf("%w", context.Canceled)
}

func evalC05(c *Ctx, cs *Case) {
	f := gen.FromDepths(cs.Depths, cs.Names)
	merged := model.Merge(f)
	fkey := f.String()
	nontrivial := merged.Size() >= 3
	r := gen.New(cs.Seed, 6)
	sp := gen.Canonical
	if cs.Kind != "exhaustive" {
		sp = gen.RandSpelling(r)
	} else {
		sp = gen.SixSpellings(cs.Seed)[int(cs.Seed%uint64(6))]
	}
	if sp.Heading > 0 && !gen.CanHeading(f) {
		sp.Heading = 0
	}
	doc := gen.Spell(f, sp)
	branches := []int{0, 3, 4, 6, 2}
	if cs.Kind != "exhaustive" {
		branches = []int{r.Intn(len(BranchTuples))}
	}
	viol := func(entry, clause, sig string, det map[string]any) {
		cs.Entry = entry
		det["forest"] = fkey
		det["doc"] = doc
		c.Violation(cs, clause, sig, det)
		cs.Entry = ""
	}
	for bn, bi := range branches {
		bo := BranchOptions(bi)
		// options that are meaningless for a walk must not change what is visited
		if stray, _ := strayOptions("walk", int(cs.Seed%5)+bn); len(stray) > 0 {
			bo = append(append([]gtree.Option{}, bo...), stray...)
			c.Count("walks_with_stray_options", 1)
		}
		want := model.Rows(merged, BranchTuples[bi])
		// text lines of the same branch options (without the stray ones, which would re-encode it)
		to := OutputMD(doc, BranchOptions(bi)...)
		lines := strings.Split(strings.TrimSuffix(string(to.Out), "\n"), "\n")
		// --- WalkFromMarkdown and alias
		for ai, name := range []string{"WalkFromMarkdown", "Walk(alias)"} {
			rec := NewRowRec()
			o := Guard(func() error {
				if ai == 0 {
					return gtree.WalkFromMarkdown(MDReader(doc), rec.Callback, bo...)
				}
				return gtree.Walk(MDReader(doc), rec.Callback, bo...)
			})
			rec.Seal(&o)
			c.Eval(gen.HashString(fkey+name+strconv.Itoa(bi)+sp.String()), nontrivial)
			c.SetAdd("entries", name)
			c05Judge(viol, name, rec.Rows, want, lines, o, bi)
		}
		// --- per root: WalkFromRoot, WalkIterFromRoot and aliases
		off := 0
		for _, root := range merged {
			n := root.Size()
			wantR := want[off : off+n]
			linesR := lines
			if off+n <= len(lines) {
				linesR = lines[off : off+n]
			}
			off += n
			for ai, name := range []string{"WalkFromRoot", "WalkProgrammably(alias)"} {
				rec := NewRowRec()
				g := BuildRoot(root)
				gbo, optsIntact := GuardOpts(bo)
				o := Guard(func() error {
					if ai == 0 {
						return gtree.WalkFromRoot(g, rec.Callback, gbo...)
					}
					return gtree.WalkProgrammably(g, rec.Callback, gbo...)
				})
				rec.Seal(&o)
				if !optsIntact() {
					viol(name, "options.callers-slice-written", "", map[string]any{})
				}
				c.Eval(gen.HashString(fkey+name+strconv.Itoa(bi)+root.Name+strconv.Itoa(off)), nontrivial)
				c.SetAdd("entries", name)
				c05Judge(viol, name, rec.Rows, wantR, linesR, o, bi)
			}
			for ai, name := range []string{"WalkIterFromRoot", "WalkIterProgrammably(alias)"} {
				irec := NewRowRec()
				g := BuildRoot(root)
				gbo, optsIntact := GuardOpts(bo)
				o := Guard(func() error {
					seq := gtree.WalkIterFromRoot(g, gbo...)
					if ai == 1 {
						seq = gtree.WalkIterProgrammably(g, gbo...)
					}
					for wn, err := range seq {
						if err != nil {
							return err
						}
						irec.Callback(wn) // records the facts and keeps the yielded node
					}
					return nil
				})
				irec.Seal(&o)
				if !optsIntact() {
					viol(name, "options.callers-slice-written", "", map[string]any{"note": "the options were passed as a prefix of a longer slice (opts[:n]...); after the call the elements beyond n are no longer the caller's"})
				}
				c.Count("calls_with_options_from_a_longer_slice", 1)
				rows := irec.Rows
				c.Eval(gen.HashString(fkey+name+strconv.Itoa(bi)+root.Name+strconv.Itoa(off)), nontrivial)
				c.SetAdd("entries", name)
				c05Judge(viol, name, rows, wantR, linesR, o, bi)
			}
		}
	}
	// --- a re-used tree: walk, walk again with other branch strings, add a node, walk again.
	// The node facts must describe the tree and options of the CURRENT call.
	for ri, root := range merged {
		if ri > 2 {
			break
		}
		g := BuildRoot(root)
		walkRows := func(bi int) ([]model.Row, Outcome) {
			rec := NewRowRec()
			o := Guard(func() error { return gtree.WalkFromRoot(g, rec.Callback, BranchOptions(bi)...) })
			return rec.Rows, o
		}
		steps := []struct {
			bi  int
			add bool
		}{{0, false}, {3, false}, {0, true}, {6, false}}
		cur := root.Clone()
		for si, st := range steps {
			if st.add {
				// a new last child under the root and under the root's former last child
				// a chain of new nodes that are themselves parents (after the earlier calls the library's
				// internal node numbering restarts, so these collide with older nodes' numbers)
				g.Add("zz_new").Add("zz_kid").Add("zz_kid2").Add("zz_kid3")
				cur.Kids = append(cur.Kids, &model.Node{Name: "zz_new", Kids: []*model.Node{{Name: "zz_kid", Kids: []*model.Node{{Name: "zz_kid2", Kids: []*model.Node{{Name: "zz_kid3"}}}}}}})
				if len(cur.Kids) > 1 {
					g.Add(cur.Kids[len(cur.Kids)-2].Name).Add("zz_deep")
					k := cur.Kids[len(cur.Kids)-2]
					k.Kids = append(k.Kids, &model.Node{Name: "zz_deep"})
				}
			}
			rows, o := walkRows(st.bi)
			want := model.Rows(model.Forest{cur}, BranchTuples[st.bi])
			c.Eval(gen.HashString(fkey+"reuse"+root.Name+strconv.Itoa(ri*10+si)), true)
			c.Count("reuse_steps", 1)
			if o.Panic != nil || o.Err != nil || !RowsEqual(rows, want) {
				var got, exp []string
				for _, r := range rows {
					got = append(got, r.Row+"|"+r.Branch+"|"+r.Path)
				}
				for _, r := range want {
					exp = append(exp, r.Row+"|"+r.Branch+"|"+r.Path)
				}
				viol("WalkFromRoot(reused tree)", "rows.differ-from-model", "reuse", map[string]any{"step": si, "branch": st.bi, "added": st.add, "got": got, "want": exp, "err": errStr(o.Err)})
				break
			}
		}
	}
	// --- a tree on which an earlier call FAILED (a dry-run Mkdir / a Verify that rejects a name):
	// the walk that follows must still show the tree as it is
	for ri, root := range merged {
		if ri > 1 {
			break
		}
		depths, names := gen.Depths(model.Forest{root})
		nn := append([]string(nil), names...)
		pos := int((cs.Seed + uint64(ri)) % uint64(len(nn)))
		nn[pos] = []string{"tmp/cache", "a/b/c"}[int(cs.Seed%2)]
		hf := gen.FromDepths(depths, nn)
		if len(hf) != 1 {
			continue
		}
		g := BuildRoot(hf[0])
		var failed [2]error
		captureColorOutput(func() {
			failed[0] = Guard(func() error { return gtree.MkdirFromRoot(g, gtree.WithDryRun()) }).Err
		})
		failed[1] = Guard(func() error { return gtree.VerifyFromRoot(g, gtree.WithTargetDir(c.TmpDir+"/no-such-dir")) }).Err
		want := model.Rows(model.Merge(hf), model.DefaultBranch)
		for i := range want {
			want[i].Path = ""
		}
		for pass := 0; pass < 2; pass++ {
			rec := NewRowRec()
			var o Outcome
			name := "WalkFromRoot(after a failed call)"
			if pass == 0 {
				o = Guard(func() error { return gtree.WalkFromRoot(g, rec.Callback) })
			} else {
				name = "WalkIterFromRoot(after a failed call)"
				o = Guard(func() error {
					for wn, err := range gtree.WalkIterFromRoot(g) {
						if err != nil {
							return err
						}
						if err := rec.Callback(wn); err != nil {
							return err
						}
					}
					return nil
				})
			}
			rec.Seal(&o)
			rows := append([]model.Row(nil), rec.Rows...)
			for i := range rows {
				rows[i].Path = ""
			}
			c.Eval(gen.HashString(fkey+"afterfail"+root.Name+strconv.Itoa(ri*2+pass)), true)
			c.Count("walks_after_a_failed_call", 1)
			if failed[0] != nil || failed[1] != nil {
				c.Count("walks_after_a_failed_call.earlier_call_did_fail", 1)
			}
			if o.Panic != nil || o.Err != nil || !RowsEqual(rows, want) {
				var got, exp []string
				for _, r := range rows {
					got = append(got, r.Row)
				}
				for _, r := range want {
					exp = append(exp, r.Row)
				}
				viol(name, "rows.differ-from-model", "after-failed-call", map[string]any{"tree": gen.Spell(hf, gen.Canonical), "earlier_errors": []string{errStr(failed[0]), errStr(failed[1])}, "got": got, "want": exp, "err": errStr(o.Err)})
				break
			}
		}
	}
	// --- a consumer that asks each node for ONE thing only: leaves for their Path, the others for
	// their Row (nothing may depend on the consumer having asked the ancestors first)
	for ri, root := range merged {
		if ri > 1 {
			break
		}
		want := model.Rows(model.Forest{root}, model.DefaultBranch)
		for form := 0; form < 2; form++ {
			var got []string
			g := BuildRoot(root)
			ask := func(wn *gtree.WalkerNode) {
				if wn.HasChild() {
					got = append(got, "row:"+wn.Row())
				} else {
					got = append(got, "path:"+wn.Path())
				}
			}
			name := "WalkFromRoot(selective accessors)"
			var o Outcome
			if form == 0 {
				o = Guard(func() error { return gtree.WalkFromRoot(g, func(wn *gtree.WalkerNode) error { ask(wn); return nil }) })
			} else {
				name = "WalkIterFromRoot(selective accessors)"
				o = Guard(func() error {
					for wn, err := range gtree.WalkIterFromRoot(g) {
						if err != nil {
							return err
						}
						ask(wn)
					}
					return nil
				})
			}
			var exp []string
			for _, w := range want {
				if w.HasChild {
					exp = append(exp, "row:"+w.Row)
				} else {
					exp = append(exp, "path:"+w.Path)
				}
			}
			c.Eval(gen.HashString(fkey+"selective"+root.Name+strconv.Itoa(form)), true)
			c.Count("selective_accessor_walks", 1)
			if o.Panic != nil || o.Err != nil || !sameStrings(got, exp) {
				viol(name, "rows.differ-from-model", "selective-accessors", map[string]any{"got": got, "want": exp, "err": errStr(o.Err)})
			}
		}
	}
	// --- failure / break at every visit index k (default branch strings)
	total := merged.Size()
	ks := make([]int, 0, total)
	if total <= 8 || cs.Kind == "exhaustive" {
		for k := 0; k < total; k++ {
			ks = append(ks, k)
		}
	} else {
		ks = []int{0, 1, total / 2, total - 2, total - 1, r.Intn(total)}
	}
	for _, k := range ks {
		sentinel := c05StopErr(cs.Idx+k, "sentinel-"+strconv.Itoa(k))
		c.SetAdd("callback_error_values", fmt.Sprintf("%T:%s", sentinel, strings.TrimRight(strings.SplitN(sentinel.Error(), "\n", 2)[0], "-0123456789")))
		rec := NewRowRec()
		rec.FailAt, rec.Err = k, sentinel
		o := Guard(func() error { return gtree.WalkFromMarkdown(MDReader(doc), rec.Callback) })
		c.Eval(gen.HashString(fkey+"failMD"+strconv.Itoa(k)), true)
		c.Count("stop_points", 1)
		if o.Panic != nil {
			viol("WalkFromMarkdown", "panic", PanicSig(o.Panic, o.Stack), map[string]any{"k": k, "stack": o.Stack})
		} else if rec.Calls != k+1 {
			viol("WalkFromMarkdown", "callback-after-error", "", map[string]any{"k": k, "calls": rec.Calls})
		} else if o.Err != sentinel {
			viol("WalkFromMarkdown", "error-not-unchanged", "", map[string]any{"k": k, "err": errStr(o.Err)})
		}
	}
	// per root for From-Root and the iterator
	for _, root := range merged {
		n := root.Size()
		kr := []int{0, n / 2, n - 1}
		if cs.Kind == "exhaustive" {
			kr = kr[:0]
			for k := 0; k < n; k++ {
				kr = append(kr, k)
			}
		}
		for _, k := range kr {
			sentinel := c05StopErr(cs.Idx+k+5, "sentinel-root-"+strconv.Itoa(k))
			rec := NewRowRec()
			rec.FailAt, rec.Err = k, sentinel
			g := BuildRoot(root)
			o := Guard(func() error { return gtree.WalkFromRoot(g, rec.Callback) })
			c.Eval(gen.HashString(fkey+"failRoot"+root.Name+strconv.Itoa(k)), true)
			c.Count("stop_points", 1)
			if o.Panic != nil {
				viol("WalkFromRoot", "panic", PanicSig(o.Panic, o.Stack), map[string]any{"k": k, "stack": o.Stack})
			} else if rec.Calls != k+1 {
				viol("WalkFromRoot", "callback-after-error", "", map[string]any{"k": k, "calls": rec.Calls})
			} else if o.Err != sentinel {
				viol("WalkFromRoot", "error-not-unchanged", "", map[string]any{"k": k, "err": errStr(o.Err)})
			}
			// iterator: break at k; count visits during and after the loop, and after a later
			// unrelated call
			visits := 0
			g2 := BuildRoot(root)
			o2 := Guard(func() error {
				for _, err := range gtree.WalkIterFromRoot(g2) {
					if err != nil {
						return err
					}
					visits++
					if visits == k+1 {
						break
					}
				}
				return nil
			})
			after := visits
			w := mon.NewRecWriter()
			_ = gtree.OutputFromRoot(w, g2)
			c.Eval(gen.HashString(fkey+"breakIter"+root.Name+strconv.Itoa(k)), true)
			c.Count("stop_points", 1)
			if o2.Panic != nil {
				viol("WalkIterFromRoot", "panic", PanicSig(o2.Panic, o2.Stack), map[string]any{"k": k, "stack": o2.Stack})
			} else if after != k+1 || visits != k+1 || o2.Err != nil {
				viol("WalkIterFromRoot", "visit-after-break", "", map[string]any{"k": k, "visits": visits, "err": errStr(o2.Err)})
			}
		}
	}
	// --- a sequence value that is kept and ranged over again (after a full pass, and after a pass
	// that was left early): every pass walks the whole tree
	for ri, root := range merged {
		if ri > 1 {
			break
		}
		want := model.Rows(model.Forest{root}, model.DefaultBranch)
		for fam := 0; fam < 2; fam++ {
			name := "WalkIterFromRoot(kept sequence)"
			seq := gtree.WalkIterFromRoot(BuildRoot(root))
			if fam == 1 {
				name = "WalkIterProgrammably(kept sequence)"
				seq = gtree.WalkIterProgrammably(BuildRoot(root))
			}
			passes := [][]model.Row{}
			var perr error
			var pan any
			for pass := 0; pass < 3; pass++ {
				var rows []model.Row
				o := Guard(func() error {
					for wn, err := range seq {
						if err != nil {
							return err
						}
						rows = append(rows, model.Row{Row: wn.Row(), Branch: wn.Branch(), Name: wn.Name(), Level: int(wn.Level()), Path: wn.Path(), HasChild: wn.HasChild()})
						if pass == 1 && len(rows) == 1+len(want)/2 {
							break // the second pass is left early; the third must be complete again
						}
					}
					return nil
				})
				if o.Panic != nil {
					pan = o.Panic
				}
				if o.Err != nil {
					perr = o.Err
				}
				passes = append(passes, rows)
			}
			// a sequence obtained BEFORE the tree got more nodes: ranging over it afterwards shows a
			// consistent tree - the current one (the library evaluates lazily) or, if an implementation
			// chose to, the one at the time the sequence was obtained - never a mixture
			{
				g := BuildRoot(root)
				var lazy func(yield func(*gtree.WalkerNode, error) bool)
				if fam == 0 {
					lazy = gtree.WalkIterFromRoot(g)
				} else {
					lazy = gtree.WalkIterProgrammably(g)
				}
				g.Add("zz_added_later").Add("zz_its_child")
				grown := root.Clone()
				grown.Kids = append(grown.Kids, &model.Node{Name: "zz_added_later", Kids: []*model.Node{{Name: "zz_its_child"}}})
				wantNow := model.Rows(model.Merge(model.Forest{grown}), model.DefaultBranch)
				var rows []model.Row
				o := Guard(func() error {
					for wn, err := range lazy {
						if err != nil {
							return err
						}
						rows = append(rows, model.Row{Row: wn.Row(), Branch: wn.Branch(), Name: wn.Name(), Level: int(wn.Level()), Path: wn.Path(), HasChild: wn.HasChild()})
					}
					return nil
				})
				c.Count("sequences_ranged_after_the_tree_grew", 1)
				if o.Panic != nil || o.Err != nil || !(RowsEqual(rows, wantNow) || RowsEqual(rows, want)) {
					var got []string
					for _, x := range rows {
						got = append(got, x.Row+"|"+x.Path)
					}
					viol(name, "rows.differ-from-model", "sequence-obtained-before-adds", map[string]any{"got": got, "err": errStr(o.Err)})
				}
			}
			// the same sequence value ranged over INSIDE a loop over itself (all pairs of nodes): the
			// outer loop still visits every node once, and every inner loop is a complete walk
			if len(want) <= 40 {
				var outerRows []string
				pairs, badInner := 0, 0
				o := Guard(func() error {
					for x, err := range seq {
						if err != nil {
							return err
						}
						outerRows = append(outerRows, x.Row())
						inner := 0
						for y, err := range seq {
							if err != nil {
								return err
							}
							if inner < len(want) && y.Row() != want[inner].Row {
								badInner++
							}
							inner++
							pairs++
						}
						if inner != len(want) {
							badInner++
						}
					}
					return nil
				})
				c.Count("sequences_ranged_inside_a_loop_over_themselves", 1)
				okOuter := len(outerRows) == len(want)
				for i := range outerRows {
					if okOuter && outerRows[i] != want[i].Row {
						okOuter = false
					}
				}
				if o.Panic != nil || o.Err != nil || !okOuter || badInner > 0 || pairs != len(want)*len(want) {
					viol(name, "rows.differ-from-model", "sequence-ranged-inside-itself", map[string]any{"nodes": len(want), "outer_visits": len(outerRows), "pairs": pairs, "want_pairs": len(want) * len(want), "incomplete_or_wrong_inner_walks": badInner, "err": errStr(o.Err), "panic": fmt.Sprint(o.Panic)})
				}
			}
			c.Eval(gen.HashString(fkey+"keptseq"+root.Name+strconv.Itoa(fam)), true)
			c.Count("kept_sequence_passes", int64(len(passes)))
			det := map[string]any{"passes": len(passes), "err": errStr(perr)}
			switch {
			case pan != nil:
				viol(name, "panic", fmt.Sprint(pan), det)
			case perr != nil:
				viol(name, "walk.error", "kept-sequence", det)
			case !RowsEqual(passes[0], want):
				viol(name, "rows.differ-from-model", "kept-sequence/first-pass", det)
			case len(passes) == 3 && !RowsEqual(passes[2], want):
				det["third_pass_rows"] = len(passes[2])
				viol(name, "rows.differ-from-model", "kept-sequence/later-pass", det)
			}
		}
	}
	if nontrivial && c.WantSample(cs.Kind) {
		rows, _ := WalkMD(doc)
		var rs []string
		for _, x := range rows {
			rs = append(rs, x.Row+" | level="+strconv.Itoa(x.Level)+" path="+x.Path+" hasChild="+strconv.FormatBool(x.HasChild))
		}
		c.Sample(cs.Kind, map[string]any{"doc": doc, "visits": rs})
	}
}

func c05Judge(viol func(entry, clause, sig string, det map[string]any), name string, rows, want []model.Row, lines []string, o Outcome, bi int) {
	det := func() map[string]any {
		var got, exp []string
		for _, r := range rows {
			got = append(got, r.Row+"|"+r.Path+"|"+strconv.Itoa(r.Level))
		}
		for _, r := range want {
			exp = append(exp, r.Row+"|"+r.Path+"|"+strconv.Itoa(r.Level))
		}
		return map[string]any{"branch": bi, "got": got, "want": exp, "err": errStr(o.Err)}
	}
	if o.Panic != nil {
		d := det()
		d["stack"] = o.Stack
		viol(name, "panic", PanicSig(o.Panic, o.Stack), d)
		return
	}
	if o.Err != nil {
		viol(name, "walk.error", "", det())
		return
	}
	if !RowsEqual(rows, want) {
		viol(name, "rows.differ-from-model", "", det())
		return
	}
	if len(lines) != len(rows) {
		d := det()
		d["text_lines"] = lines
		viol(name, "rows.differ-from-text", "", d)
		return
	}
	for i := range rows {
		if rows[i].Row != lines[i] {
			d := det()
			d["text_lines"] = lines
			viol(name, "rows.differ-from-text", "", d)
			return
		}
	}
}
