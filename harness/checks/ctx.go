// Package checks holds the per-property workloads and oracles. They run inside the worker
// process; the driver never calls gtree.
package checks

import (
	"strconv"
	"runtime"
	"bufio"
	"encoding/json"
	"fmt"
	"os"
	"sort"
	"sync"
	"unicode/utf8"
)

// Case is the serialisable description of one case: everything needed to re-run it.
type Case struct {
	Idx     int               `json:"idx"`
	Kind    string            `json:"kind"`            // sub-workload / oracle family
	Entry   string            `json:"entry,omitempty"` // entry point / mode label
	Doc     []byte            `json:"doc_b64,omitempty"`
	DocText string            `json:"doc,omitempty"` // readable copy when valid UTF-8 (informational)
	Depths  []int             `json:"depths,omitempty"`
	Names   []string          `json:"names,omitempty"`
	Opt     map[string]string `json:"opt,omitempty"`
	N       []int             `json:"n,omitempty"` // numeric parameters (fault index, k, GOMAXPROCS, ...)
	Seed    uint64            `json:"seed,omitempty"`
	Tags    []string          `json:"tags,omitempty"` // input-class predicates evaluated by the harness
	History []string          `json:"history,omitempty"`
}

// SetDoc stores the document.
func (c *Case) SetDoc(doc string) {
	c.Doc = []byte(doc)
	if utf8.ValidString(doc) && len(doc) <= 4000 {
		c.DocText = doc
	} else {
		c.DocText = ""
	}
}

func (c *Case) O(k string) string { return c.Opt[k] }

func (c *Case) HasTag(t string) bool {
	for _, x := range c.Tags {
		if x == t {
			return true
		}
	}
	return false
}

func (c *Case) AddTag(t string) {
	if !c.HasTag(t) {
		c.Tags = append(c.Tags, t)
	}
}

// Msg is one JSON line from the worker to the driver.
type Msg struct {
	T       string           `json:"t"` // "viol", "progress", "done", "inconclusive"
	Prop    string           `json:"prop,omitempty"`
	Clause  string           `json:"clause,omitempty"`
	Sig     string           `json:"sig,omitempty"`
	Detail  map[string]any   `json:"detail,omitempty"`
	Case    *Case            `json:"case,omitempty"`
	Stats   *Stats           `json:"stats,omitempty"`
	Samples []map[string]any `json:"samples,omitempty"`
	Reason  string           `json:"reason,omitempty"`
}

// Stats are the cumulative counters of a worker.
type Stats struct {
	Evaluations  int64               `json:"evaluations"`
	Cases        int64               `json:"cases"`
	NextIdx      int                 `json:"next_idx"`
	Inconclusive int64               `json:"inconclusive"`
	Counters     map[string]int64    `json:"counters"`
	Sets         map[string][]string `json:"sets"`
	DistinctFile string              `json:"distinct_file,omitempty"`
	Exhausted    bool                `json:"exhausted"` // the shard's enumeration ran to completion
}

// Ctx is the worker-side context of one shard of one property's check.
type Ctx struct {
	Prop    string
	Tier    string
	Seed    uint64
	Shard   int
	NShards int
	Start   int // resume: skip cases with Idx < Start
	Race    bool
	TmpDir  string // scratch for jails (removed by the driver)
	BinDir  string

	journalPath string
	out         *bufio.Writer
	mu          sync.Mutex
	stats       Stats
	distinct    map[uint64]struct{}
	sets        map[string]map[string]struct{}
	samples     []map[string]any
	sampleKinds map[string]int
	violSeen    map[string]int
	curIdx      int
	lastFlush   int64
}

// NewCtx creates the context; messages go to stdout.
func NewCtx(prop, tier string, seed uint64, shard, nshards, start int, journal, tmp string) *Ctx {
	IOTmpDir = tmp
	c := &Ctx{
		Prop: prop, Tier: tier, Seed: seed, Shard: shard, NShards: nshards, Start: start,
		journalPath: journal, TmpDir: tmp,
		out:         bufio.NewWriterSize(os.Stdout, 1<<16),
		stats:       Stats{Counters: map[string]int64{}},
		distinct:    map[uint64]struct{}{},
		sets:        map[string]map[string]struct{}{},
		sampleKinds: map[string]int{},
		violSeen:    map[string]int{},
	}
	c.SetAdd("worker_process_numcpu", strconv.Itoa(runtime.NumCPU()))
	return c
}

// Quick tells whether this is the quick tier.
func (c *Ctx) Quick() bool { return c.Tier != "thorough" }

// Pick returns q in the quick tier and t in the thorough tier.
func (c *Ctx) Pick(q, t int) int {
	if c.Quick() {
		return q
	}
	return t
}

// Mine tells whether case idx belongs to this shard (and is not skipped by a resume).
func (c *Ctx) Mine(idx int) bool {
	return idx%c.NShards == c.Shard && idx >= c.Start
}

// Journal records the case about to run (overwrites the journal file) before gtree is called.
func (c *Ctx) Journal(cs *Case) {
	SetIOSeq(cs.Idx)
	c.curIdx = cs.Idx
	c.stats.Cases++
	c.stats.NextIdx = cs.Idx + 1
	b, _ := json.Marshal(cs)
	// write + rename is not needed: a torn journal can only happen if the harness itself dies
	// inside WriteFile, which is not a gtree call
	os.WriteFile(c.journalPath, b, 0o644)
}

// Rejournal overwrites the journal with the refined description (entry point, tags) of the
// call about to be made, without counting a new case. Used before calls that can kill the
// process (massive mode runs gtree code in other goroutines).
func (c *Ctx) Rejournal(cs *Case) {
	b, _ := json.Marshal(cs)
	os.WriteFile(c.journalPath, b, 0o644)
}

// Eval counts one oracle evaluation; key identifies the case for distinctness; nontrivial per
// the property's rule.
func (c *Ctx) Eval(key uint64, nontrivial bool) {
	c.mu.Lock()
	c.stats.Evaluations++
	if nontrivial && len(c.distinct) < 4_000_000 {
		c.distinct[key] = struct{}{}
	}
	c.mu.Unlock()
}

// Count adds to a named counter.
func (c *Ctx) Count(name string, d int64) {
	c.mu.Lock()
	c.stats.Counters[name] += d
	c.mu.Unlock()
}

// SetAdd adds a member to a named set (e.g. hook points reached, entry points exercised).
func (c *Ctx) SetAdd(name, member string) {
	c.mu.Lock()
	s := c.sets[name]
	if s == nil {
		s = map[string]struct{}{}
		c.sets[name] = s
	}
	if len(s) < 5000 {
		s[member] = struct{}{}
	}
	c.mu.Unlock()
}

// Inconclusive records a case whose verdict could not be decided.
func (c *Ctx) Inconclusive(cs *Case, reason string) {
	c.mu.Lock()
	c.stats.Inconclusive++
	n := c.stats.Inconclusive
	c.mu.Unlock()
	if n <= 5 {
		c.send(Msg{T: "inconclusive", Prop: c.Prop, Case: cs, Reason: reason})
	}
}

// Sample keeps a few actual cases per kind for the evidence file.
func (c *Ctx) Sample(kind string, v map[string]any) {
	c.mu.Lock()
	defer c.mu.Unlock()
	if c.sampleKinds[kind] >= 2 || len(c.samples) >= 12 {
		return
	}
	c.sampleKinds[kind]++
	v["kind"] = kind
	c.samples = append(c.samples, v)
}

// WantSample tells whether another sample of this kind is still wanted (to avoid building it).
func (c *Ctx) WantSample(kind string) bool {
	c.mu.Lock()
	defer c.mu.Unlock()
	return c.sampleKinds[kind] < 2 && len(c.samples) < 12
}

// Violation reports an oracle violation. clause names the oracle clause; sig is a short
// signature refining it (entry point, crash frame, leak signature...). Full details are sent
// for the first few occurrences per (clause, sig, tag set); all are counted.
func (c *Ctx) Violation(cs *Case, clause, sig string, detail map[string]any) {
	tags := append([]string(nil), cs.Tags...)
	sort.Strings(tags)
	k := clause + "|" + sig + "|" + cs.Entry + "|" + fmt.Sprint(tags)
	c.mu.Lock()
	c.violSeen[k]++
	n := c.violSeen[k]
	c.stats.Counters["violations_raw"]++
	c.mu.Unlock()
	if n > 3 {
		return
	}
	cp := *cs
	c.send(Msg{T: "viol", Prop: c.Prop, Clause: clause, Sig: sig, Detail: detail, Case: &cp})
	c.Flush()
}

func (c *Ctx) send(m Msg) {
	b, err := json.Marshal(m)
	if err != nil {
		b, _ = json.Marshal(Msg{T: "viol", Prop: c.Prop, Clause: "harness.marshal", Sig: err.Error()})
	}
	c.mu.Lock()
	c.out.Write(b)
	c.out.WriteByte('\n')
	c.mu.Unlock()
}

// Flush flushes stdout.
func (c *Ctx) Flush() {
	c.mu.Lock()
	c.out.Flush()
	c.mu.Unlock()
}

func (c *Ctx) snapshotStats() *Stats {
	c.mu.Lock()
	defer c.mu.Unlock()
	s := c.stats
	s.Counters = map[string]int64{}
	for k, v := range c.stats.Counters {
		s.Counters[k] = v
	}
	for k, v := range IOShapeCounts() {
		s.Counters["io_kind."+k] = v
	}
	s.Sets = map[string][]string{}
	for k, set := range c.sets {
		for m := range set {
			s.Sets[k] = append(s.Sets[k], m)
		}
		sort.Strings(s.Sets[k])
	}
	return &s
}

// Progress emits a cumulative progress line every few hundred cases, so that a crash loses little.
func (c *Ctx) Progress(force bool) {
	c.mu.Lock()
	due := force || c.stats.Cases-c.lastFlush >= 100
	if due {
		c.lastFlush = c.stats.Cases
	}
	c.mu.Unlock()
	if !due {
		return
	}
	st := c.snapshotStats()
	c.send(Msg{T: "progress", Prop: c.Prop, Stats: st, Samples: c.samplesCopy()})
	c.Flush()
}

func (c *Ctx) samplesCopy() []map[string]any {
	c.mu.Lock()
	defer c.mu.Unlock()
	return append([]map[string]any(nil), c.samples...)
}

func (c *Ctx) writeDistinct() string {
	p := c.journalPath + ".distinct"
	c.mu.Lock()
	buf := make([]byte, 0, 8*len(c.distinct))
	for k := range c.distinct {
		buf = append(buf, byte(k), byte(k>>8), byte(k>>16), byte(k>>24), byte(k>>32), byte(k>>40), byte(k>>48), byte(k>>56))
	}
	c.mu.Unlock()
	os.WriteFile(p, buf, 0o644)
	return p
}

// Recycle ends this worker process after a hang / watchdog (the stuck goroutines cannot be
// removed); the driver restarts the shard after the journalled case (exit status 3).
func (c *Ctx) Recycle() {
	c.Progress(true)
	c.Flush()
	os.Exit(3)
}

// Done emits the final line.
func (c *Ctx) Done(exhausted bool) {
	st := c.snapshotStats()
	st.Exhausted = exhausted
	st.DistinctFile = c.writeDistinct()
	c.send(Msg{T: "done", Prop: c.Prop, Stats: st, Samples: c.samplesCopy()})
	c.Flush()
}

// Registry of checks.
type Check struct {
	Prop string
	// Run generates this shard's cases and evaluates them. It must call c.Journal before each
	// call into gtree. It returns true when the enumeration completed.
	Run func(c *Ctx) bool
	// Replay re-runs one journalled case.
	Replay func(c *Ctx, cs *Case)
}

var registry = map[string]*Check{}

func Register(ch *Check) { registry[ch.Prop] = ch }

func Lookup(prop string) *Check { return registry[prop] }
