package checks

import (
	"context"
	"os"
	"sort"
	"strings"

	"github.com/ddddddO/gtree"
	"github.com/fatih/color"

	"gtverif/model"
	"gtverif/mon"
)

// fsRoute is one way of asking gtree to create / verify a forest.
type fsRoute struct {
	Name     string
	FromRoot bool
	Alias    bool
}

var mkdirRoutes = []fsRoute{
	{Name: "MkdirFromMarkdown"},
	{Name: "MkdirFromRoot", FromRoot: true},
	{Name: "Mkdir(alias)", Alias: true},
	{Name: "MkdirProgrammably(alias)", FromRoot: true, Alias: true},
}

var verifyRoutes = []fsRoute{
	{Name: "VerifyFromMarkdown"},
	{Name: "VerifyFromRoot", FromRoot: true},
	{Name: "Verify(alias)", Alias: true},
	{Name: "VerifyProgrammably(alias)", FromRoot: true, Alias: true},
}

// mkdirCall runs one Mkdir call. For From-Root routes root must be non-nil and doc is ignored.
func mkdirCall(rt fsRoute, doc string, root *model.Node, opts []gtree.Option) Outcome {
	return Guard(func() error {
		switch {
		case rt.FromRoot && rt.Alias:
			return gtree.MkdirProgrammably(BuildRoot(root), opts...)
		case rt.FromRoot:
			return gtree.MkdirFromRoot(BuildRoot(root), opts...)
		case rt.Alias:
			return gtree.Mkdir(MDReader(doc), opts...)
		default:
			return gtree.MkdirFromMarkdown(MDReader(doc), opts...)
		}
	})
}

func verifyCall(rt fsRoute, doc string, root *model.Node, opts []gtree.Option) Outcome {
	return Guard(func() error {
		switch {
		case rt.FromRoot && rt.Alias:
			return gtree.VerifyProgrammably(BuildRoot(root), opts...)
		case rt.FromRoot:
			return gtree.VerifyFromRoot(BuildRoot(root), opts...)
		case rt.Alias:
			return gtree.Verify(MDReader(doc), opts...)
		default:
			return gtree.VerifyFromMarkdown(MDReader(doc), opts...)
		}
	})
}

// fsOpts builds options for filesystem calls.
// explicitEmptyTarget: pass WithTargetDir("") explicitly (what the CLI does when --target-dir is
// not given) instead of omitting the option.
const explicitEmptyTarget = "\x00explicit-empty"

var fsOptsCalls int

func fsOpts(target string, exts []string, hasExt, dry, massive, strict bool) []gtree.Option {
	var o []gtree.Option
	fsOptsCalls++
	if fsOptsCalls%2 == 0 {
		o = append(o, nil) // nil options are skipped by the library; they must not hide later options
	}
	if target == explicitEmptyTarget {
		o = append(o, gtree.WithTargetDir(""))
	} else if target != "" {
		o = append(o, gtree.WithTargetDir(target))
	}
	if hasExt {
		o = append(o, gtree.WithFileExtensions(sharedExt(exts)))
	}
	if fsOptsCalls%3 == 0 {
		o = append(o, nil)
	}
	if dry {
		o = append(o, gtree.WithDryRun())
	}
	if massive {
		o = append(o, gtree.WithMassive(context.Background()))
	}
	if strict {
		o = append(o, gtree.WithStrictVerify())
	}
	return o
}

// withCwd runs fn with the working directory changed to dir (the worker drives one call at a time).
func withCwd(dir string, fn func()) error {
	old, err := os.Getwd()
	if err != nil {
		return err
	}
	if err := os.Chdir(dir); err != nil {
		return err
	}
	defer os.Chdir(old)
	fn()
	return nil
}

// captureColorOutput points fatih/color's process-wide Output at a recorder for the duration of fn.
func captureColorOutput(fn func()) []byte {
	w := mon.NewRecWriter()
	old := color.Output
	color.Output = w
	defer func() { color.Output = old }()
	fn()
	return w.Bytes()
}

// expectedCreated returns the diff lines a successful Mkdir of the merged forest must produce
// below prefix (the target's path relative to the jail).
func expectedCreated(merged model.Forest, exts []string, prefix string) []string {
	var out []string
	for _, e := range model.FSEntries(merged, exts) {
		k := "+d "
		if e.File {
			k = "+f "
		}
		out = append(out, k+prefix+"/"+e.Path)
	}
	sort.Strings(out)
	return out
}

func sameStrings(a, b []string) bool {
	if len(a) != len(b) {
		return false
	}
	for i := range a {
		if a[i] != b[i] {
			return false
		}
	}
	return true
}

// fsSafeName: a single valid path element that the OS accepts.
func fsSafeName(n string) bool {
	return n != "" && n != "." && n != ".." && !strings.ContainsAny(n, "/\x00") && len(n) <= 200
}

// filesAllEmpty checks that every created regular file below prefix is empty.
func filesAllEmpty(after mon.Snapshot, created []string) bool {
	set := map[string]bool{}
	for _, c := range created {
		if strings.HasPrefix(c, "+f ") {
			set[c[3:]] = true
		}
	}
	for _, e := range after {
		if set[e.Path] && (e.Kind != "f" || e.Size != 0) {
			return false
		}
	}
	return true
}

// strayOptions returns options that are meaningless for the operation kind ("mkdir", "verify",
// "walk") and therefore must not change its result: output encodings, branch strings, the
// non-iterator switch, strictness (mkdir), extensions (verify, walk), a nil option.
func strayOptions(kind string, sel int) ([]gtree.Option, string) {
	var o []gtree.Option
	var names []string
	add := func(n string, opt gtree.Option) { o = append(o, opt); names = append(names, n) }
	switch sel % 6 {
	case 1:
		add("json", gtree.WithEncodeJSON())
	case 2:
		add("yaml", gtree.WithEncodeYAML())
		add("noiter", gtree.WithNoUseIterOfSimpleOutput())
	case 3:
		add("toml", gtree.WithEncodeTOML())
		add("nil", nil)
	case 4:
		add("nil", nil)
		if kind != "walk" {
			add("branch", gtree.WithBranchFormatLastNode("X", "Y"))
			add("branch-again", gtree.WithBranchFormatIntermedialNode("P", "Q"))
		}
	case 5:
		if kind == "mkdir" {
			add("strict", gtree.WithStrictVerify())
		} else {
			add("ext", gtree.WithFileExtensions([]string{".gz", "b"}))
		}
		add("json", gtree.WithEncodeJSON())
	}
	return o, strings.Join(names, "+")
}
