package checks

import (
	"reflect"
	"context"
	"fmt"
	"runtime"
	"strconv"
	"strings"

	"github.com/ddddddO/gtree"

	"gtverif/gen"
	"gtverif/model"
)

// BranchTuples are the branch-string tuples of the workloads.
var BranchTuples = []model.Branch{
	model.DefaultBranch,
	{MidConn: "+--", MidCont: "|   ", LastConn: "`--", LastCont: "    "},
	{},
	{MidConn: "M", MidCont: "m", LastConn: "L", LastCont: "l"}, // every prefix position decodable
	{MidConn: "┣━", MidCont: "┃　", LastConn: "┗━", LastCont: "　　"},
	{MidConn: "T", MidCont: "", LastConn: "", LastCont: "I"},
	{MidConn: "--", MidCont: "--", LastConn: "==", LastCont: "=-"}, // continuation strings ending in connector characters
	{MidConn: " ", MidCont: "  ", LastConn: " ", LastCont: "   "},  // blanks only
	{MidConn: "|", MidCont: "|  ", LastConn: "`", LastCont: "|"},   // a connector that also occurs INSIDE the continuation strings
	{MidConn: "%d", MidCont: "%s ", LastConn: "%", LastCont: "%%"}, // format verbs: branch strings are data, never a format
	{MidConn: "a", MidCont: "ab", LastConn: "abc", LastCont: "abcd"}, // every string a prefix of the next
	{MidConn: "+-", MidCont: "| ", LastConn: "+---", LastCont: "  "}, // the last-node connector LONGER (in bytes) than the intermediate one
	{MidConn: "", MidCont: "x", LastConn: "└└", LastCont: ""},        // an empty intermediate connector next to a multi-byte last one
}

// allBranches lists every index of BranchTuples.
func allBranches() []int {
	out := make([]int, len(BranchTuples))
	for i := range out {
		out[i] = i
	}
	return out
}

// ExtLists are the extension lists of the filesystem workloads.
var ExtLists = [][]string{
	nil,
	{".gz"},
	{".tar.gz"}, // an extension that itself contains a dot
	{".gz", "b"},
	{"gz"},       // bare suffix
	{"z", ".gz"}, // overlapping suffixes
	{".go", "Makefile", ".md"},
	{""},                  // empty string: every leaf
	{".gz", ".md", ".gz"}, // a duplicate entry
	{".c", ".h", ".md", ".txt", ".yml", ".json", ".toml", ".sh", ".tar.gz", "Makefile", ".lock"}, // many entries
}

// extShared holds, per process, ONE clone of each extension list that is handed to gtree for
// every call (a caller re-using its slice / Option value), while the model always reads the
// pristine ExtLists. A callee that modifies the caller's slice is thereby exposed on the next call.
var extShared = func() [][]string {
	out := make([][]string, len(ExtLists))
	for i, l := range ExtLists {
		if l != nil {
			out[i] = append([]string{}, l...)
		}
	}
	return out
}()

// sharedExt maps a pristine list to the shared clone given to gtree.
func sharedExt(exts []string) []string {
	if len(exts) == 0 {
		return exts
	}
	for i, l := range ExtLists {
		if len(l) == len(exts) && len(l) > 0 && &l[0] == &exts[0] {
			return extShared[i]
		}
	}
	return exts
}

// ExtAlphabet is the 2-letter alphabet of the exhaustive filesystem workloads.
var ExtAlphabet = []string{"a.tar.gz", "b"}

// allExt lists every index of ExtLists.
func allExt() []int {
	out := make([]int, len(ExtLists))
	for i := range out {
		out[i] = i
	}
	return out
}

func atoi(s string) int {
	n, _ := strconv.Atoi(s)
	return n
}

// BranchOf returns the branch tuple of a case.
func BranchOf(cs *Case) model.Branch { return BranchTuples[atoi(cs.O("branch"))] }

// ExtOf returns the extension list of a case.
func ExtOf(cs *Case) []string { return ExtLists[atoi(cs.O("ext"))] }

// BranchOptions are the gtree options for a branch tuple index (none for the default).
func BranchOptions(i int) []gtree.Option {
	if i == 0 {
		return nil
	}
	b := BranchTuples[i]
	return []gtree.Option{
		gtree.WithBranchFormatIntermedialNode(b.MidConn, b.MidCont),
		gtree.WithBranchFormatLastNode(b.LastConn, b.LastCont),
	}
}

// GuardOpts returns the same options in a slice that has spare capacity, the way a caller holds
// them who keeps all its options in one slice and passes a prefix of it (opts[:n]...). The two
// elements beyond the passed length belong to the caller: intact() tells whether they still hold
// what the caller put there once the call is over.
func GuardOpts(o []gtree.Option) (passed []gtree.Option, intact func() bool) {
	backing := make([]gtree.Option, len(o)+2)
	copy(backing, o)
	backing[len(o)], backing[len(o)+1] = guardSentinel, guardSentinel
	want := reflect.ValueOf(gtree.Option(guardSentinel)).Pointer()
	return backing[:len(o)], func() bool {
		for _, e := range backing[len(o):] {
			if e == nil || reflect.ValueOf(e).Pointer() != want {
				return false
			}
		}
		return true
	}
}

var guardSentinel = gtree.WithEncodeTOML() // never applied: it sits beyond the passed length

// Options builds the gtree options of a case. ctx is used for massive; target "" = default.
func Options(cs *Case, ctx context.Context, target string) []gtree.Option {
	var o []gtree.Option
	o = append(o, BranchOptions(atoi(cs.O("branch")))...)
	switch cs.O("enc") {
	case "json":
		o = append(o, gtree.WithEncodeJSON())
	case "yaml":
		o = append(o, gtree.WithEncodeYAML())
	case "toml":
		o = append(o, gtree.WithEncodeTOML())
	}
	if cs.O("dry") == "1" {
		o = append(o, gtree.WithDryRun())
	}
	if cs.O("ext") != "" {
		o = append(o, gtree.WithFileExtensions(sharedExt(ExtOf(cs))))
	}
	if cs.O("massive") == "1" {
		if ctx == nil {
			ctx = context.Background()
		}
		o = append(o, gtree.WithMassive(ctx))
	}
	if cs.O("noiter") == "1" {
		o = append(o, gtree.WithNoUseIterOfSimpleOutput())
	}
	if cs.O("strict") == "1" {
		o = append(o, gtree.WithStrictVerify())
	}
	if target != "" {
		o = append(o, gtree.WithTargetDir(target))
	}
	return o
}

// Outcome of one guarded in-goroutine call.
type Outcome struct {
	Out   []byte
	Err   error
	Panic any
	Stack string
}

// Guard runs fn and converts a panic in the calling goroutine into an Outcome.
func Guard(fn func() error) (o Outcome) {
	defer func() {
		if p := recover(); p != nil {
			buf := make([]byte, 8<<10)
			n := runtime.Stack(buf, false)
			o.Panic = p
			o.Stack = string(buf[:n])
		}
	}()
	o.Err = fn()
	return
}

// OutputMD calls gtree.OutputFromMarkdown on doc.
func OutputMD(doc string, opts ...gtree.Option) Outcome {
	// a mutex-protected writer: after a massive call returned with an error, pipeline goroutines
	// may still be writing for a moment; reading a bytes.Buffer then would be the harness's race
	// (the reader's and the writer's concrete kind rotate, see ioshape.go)
	Poison(doc, opts...)
	w, got := OutWriter()
	o := Guard(func() error { return gtree.OutputFromMarkdown(w, MDReader(doc), opts...) })
	o.Out = got()
	return o
}

// PanicSig reduces a panic to a signature: message + innermost gtree frame.
func PanicSig(p any, stack string) string {
	msg := fmt.Sprint(p)
	if len(msg) > 80 {
		msg = msg[:80]
	}
	fn := ""
	for _, l := range strings.Split(stack, "\n") {
		if strings.HasPrefix(l, "github.com/ddddddO/gtree") {
			fn = l
			if i := strings.LastIndexByte(fn, '('); i > 0 {
				fn = fn[:i]
			}
			fn = strings.TrimPrefix(fn, "github.com/ddddddO/gtree")
			break
		}
	}
	return msg + " @" + fn
}

// BuildRoot builds a programmatic tree for a single-root model tree, adding nodes in pre-order.
func BuildRoot(n *model.Node) *gtree.Node {
	root := gtree.NewRoot(n.Name)
	var add func(g *gtree.Node, m *model.Node)
	add = func(g *gtree.Node, m *model.Node) {
		for _, k := range m.Kids {
			add(g.Add(k.Name), k)
		}
	}
	add(root, n)
	return root
}

// ForestKey hashes a forest with extra discriminators.
func ForestKey(f model.Forest, extra ...string) uint64 {
	return gen.HashString(f.String() + "\x00" + strings.Join(extra, "\x00"))
}

// trunc shortens a string for details.
func trunc(s string, n int) string {
	if len(s) <= n {
		return s
	}
	return s[:n] + fmt.Sprintf("...(+%d bytes)", len(s)-n)
}

// firstDiff returns the index of the first differing byte.
func firstDiff(a, b string) int {
	n := len(a)
	if len(b) < n {
		n = len(b)
	}
	for i := 0; i < n; i++ {
		if a[i] != b[i] {
			return i
		}
	}
	if len(a) != len(b) {
		return n
	}
	return -1
}

func errStr(e error) string {
	if e == nil {
		return ""
	}
	return e.Error()
}
