#!/bin/bash
# Developer aid: confirm a sub-agent's two mutations and run the given checks against each.
# usage: mut_batch.sh <prop> <check ids...>
P=$1; shift
for L in A B; do
  echo "== $P $L"
  /verif/confirm_mut.sh /tmp/wt/$P /tmp/wt/$P/MUTATION/$L.diff /tmp/wt/$P/MUTATION/${L}_demo_test.go 2>&1 | tail -3 | cut -c1-200
  /verif/try_mut.sh /tmp/wt/$P/MUTATION/$L.diff "$@" 2>&1 | cut -c1-330
done
git -C /repo status --short | head -2
