#!/bin/sh
# Developer aid: runs the repository's WHOLE suite on a scratch copy of /repo's working tree
# from which the leftover root*/ directories are removed (they make the suite abort in /repo).
# Used to validate fix: commits beyond the narrow pinned baseline. Scratch copy is deleted.
set -e
S=/tmp/gt-scratch-$$
rm -rf $S; mkdir -p $S
cd /repo
git ls-files -z | grep -zv '^root[^/]*/' | xargs -0 cp --parents -t $S
cd $S
unset GOSUMDB GOTOOLCHAIN
export GOFLAGS=-mod=mod GOPROXY=off
go test -vet=off -count=1 . ./markdown 2>&1 | tail -${1:-15}
cd /; rm -rf $S
